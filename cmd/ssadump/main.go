package main

import (
	"fmt"
	"os"
	"strings"

	"golang.org/x/tools/go/packages"
	"golang.org/x/tools/go/ssa"
	"golang.org/x/tools/go/ssa/ssautil"
)

func main() {
	cfg := &packages.Config{Mode: packages.LoadAllSyntax, Dir: "/repo", BuildFlags: []string{"-tags=verif"}}
	pkgs, err := packages.Load(cfg, "./ecs")
	if err != nil {
		panic(err)
	}
	prog, spkgs := ssautil.AllPackages(pkgs, ssa.GlobalDebug|ssa.InstantiateGenerics&0)
	prog.Build()
	p := spkgs[0]
	want := os.Args[1:]
	for fn := range ssautil.AllFunctions(prog) {
		if fn.Pkg != p {
			continue
		}
		for _, w := range want {
			if strings.Contains(fn.String(), w) {
				fn.WriteTo(os.Stdout)
				fmt.Println()
			}
		}
	}
}
