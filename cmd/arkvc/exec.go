package main

import (
	"fmt"
	"go/constant"
	"go/token"
	"go/types"
	"sort"

	"golang.org/x/tools/go/ssa"
)

type edgeOut struct {
	cond Term
	st   *State
}

type Frame struct {
	vc       *VC
	fn       *ssa.Function
	vals     map[ssa.Value]Val
	st       *State
	live     Term
	old      *State // state that old() refers to
	edges    map[*ssa.BasicBlock][]edgeOut
	bindings []Val
	spec     *FuncSpec // contract of fn when fn is the function under proof
	isTop    bool
	loops    map[*ssa.BasicBlock]*loopData
	cur      *ssa.BasicBlock
	argVals  []Val
	mapIter  map[ssa.Value]*mapIterState
	cellOf   map[*ssa.Alloc]int
	firedKey map[*loopData]int // per loop with "fires" clauses: cell that records whether a callback ran in this iteration
}

type loopData struct {
	header  *ssa.BasicBlock
	blocks  map[*ssa.BasicBlock]bool
	backs   []*ssa.BasicBlock
	ordinal int // 1-based source ordinal, 0 if unknown
	phis    []*ssa.Phi
}

func (c *cellRef) extend(s cellStep) *cellRef {
	n := &cellRef{key: c.key, typ: c.typ, path: append(append([]cellStep{}, c.path...), s)}
	return n
}

func (fr *Frame) cellGet(c *cellRef) Val {
	root, ok := fr.st.cells[c.key]
	if !ok {
		unsup("local variable cell not available on this path")
	}
	if len(c.path) == 0 {
		return root
	}
	t := root.T
	for _, s := range c.path {
		if s.idx != nil {
			t = fr.arrayGet(t, s.cont, *s.idx, s.idxT)
		} else {
			t = fr.vc.structInfo(s.cont).get(t, s.field)
		}
	}
	return Val{T: t}
}

func (fr *Frame) cellSet(c *cellRef, v Val) {
	if len(c.path) == 0 {
		if v.Tup == nil && v.Clo == nil && v.Cell == nil {
			v.T = fr.vc.name("cell", v.T)
		}
		fr.st.cells[c.key] = v
		return
	}
	root, ok := fr.st.cells[c.key]
	if !ok {
		unsup("local variable cell not available on this path")
	}
	var upd func(t Term, path []cellStep) Term
	upd = func(t Term, path []cellStep) Term {
		if len(path) == 0 {
			return v.T
		}
		s := path[0]
		if s.idx != nil {
			inner := fr.arrayGet(t, s.cont, *s.idx, s.idxT)
			return fr.arraySet(t, s.cont, *s.idx, s.idxT, upd(inner, path[1:]))
		}
		si := fr.vc.structInfo(s.cont)
		var fs []Term
		for k := range si.Fields {
			if k == s.field {
				fs = append(fs, upd(si.get(t, k), path[1:]))
			} else {
				fs = append(fs, si.get(t, k))
			}
		}
		return si.mk(fs)
	}
	fr.st.cells[c.key] = Val{T: fr.vc.name("cell", upd(root.T, c.path))}
}

// isLocalAlloc reports whether the address of the allocation never escapes: it is only used for
// loads, stores and field/element selection.
func isLocalAlloc(a *ssa.Alloc) bool {
	var ok func(v ssa.Value) bool
	ok = func(v ssa.Value) bool {
		refs := v.Referrers()
		if refs == nil {
			return false
		}
		for _, r := range *refs {
			switch u := r.(type) {
			case *ssa.DebugRef:
			case *ssa.Store:
				if u.Addr != v || u.Val == v {
					return false
				}
			case *ssa.UnOp:
				if u.Op != token.MUL {
					return false
				}
			case *ssa.FieldAddr:
				if !ok(u) {
					return false
				}
			case *ssa.IndexAddr:
				if u.X != v || !ok(u) {
					return false
				}
			case *ssa.Slice:
				// the array behind a variadic call: written before it is sliced, never after; the
				// slice is materialised as a copy at that point
				if a.Comment != "varargs" || u.X != v || v != ssa.Value(a) {
					return false
				}
			default:
				return false
			}
		}
		return true
	}
	return ok(a)
}

// materialize turns the address of a local cell into a heap pointer holding a copy of its value
// (sound for read-only uses, i.e. in specifications).
func (fr *Frame) materialize(v Val, t types.Type) Val {
	if v.Cell == nil {
		return v
	}
	if fr.vc.spec == 0 {
		unsup("address of a local variable escapes")
	}
	cur := fr.cellGet(v.Cell)
	et := fr.vc.rt(t).Underlying().(*types.Pointer).Elem()
	p := fr.vc.newAlloc(fr.st, false)
	fr.vc.storeAt(fr.st, p, et, cur.T)
	return Val{T: p}
}

type mapIterState struct {
	m       Term
	mt      *types.Map
	visited Term // (Array K Bool)
}

func (fr *Frame) val(v ssa.Value) Val {
	if x, ok := fr.vals[v]; ok {
		return x
	}
	switch c := v.(type) {
	case *ssa.Const:
		return fr.vc.constVal(c)
	case *ssa.Global:
		return Val{T: fr.vc.globalPtr(c)}
	case *ssa.Function:
		return Val{T: fr.vc.funcConst(c), Clo: &closureVal{fn: c}}
	case *ssa.Builtin:
		return Val{}
	case *ssa.FreeVar:
		for i, fv := range fr.fn.FreeVars {
			if fv == c {
				if i < len(fr.bindings) {
					return fr.bindings[i]
				}
			}
		}
		unsup("free variable %s without binding", c.Name())
	}
	unsup("value %s (%T) not available in %s", v.Name(), v, fr.fn.Name())
	return Val{}
}

func (fr *Frame) term(v ssa.Value) Term { return fr.val(v).T }

func (vc *VC) funcConst(f *ssa.Function) Term {
	n := "fn_" + sanitize(f.RelString(vc.L.SPkg.Pkg))
	return vc.declare(n, SFunc)
}

func (vc *VC) globalPtr(g *ssa.Global) Term {
	name := g.RelString(vc.L.SPkg.Pkg)
	k, ok := vc.globalIdx[name]
	if !ok {
		k = len(vc.globalIdx) + 1
		vc.globalIdx[name] = k
	}
	return Term{fmt.Sprintf("(mkptr (- %d) PNil)", k), SPtr}
}

func (vc *VC) constVal(c *ssa.Const) Val {
	t := vc.rt(c.Type())
	srt := vc.sortOf(t)
	if c.Value == nil {
		return Val{T: vc.zeroOf(t)}
	}
	switch {
	case srt == SBool:
		if constant.BoolVal(c.Value) {
			return Val{T: tTrue}
		}
		return Val{T: tFalse}
	case bvWidth(srt) > 0:
		w := bvWidth(srt)
		if u, ok := constant.Uint64Val(constant.ToInt(c.Value)); ok {
			return Val{T: bvLit(u, w)}
		}
		if i, ok := constant.Int64Val(constant.ToInt(c.Value)); ok {
			return Val{T: bvLit(uint64(i), w)}
		}
		unsup("integer constant out of range: %s", c.Value)
	case srt == SStr:
		s := constant.StringVal(c.Value)
		n := fmt.Sprintf("str_%x", hashStr(s))
		return Val{T: vc.declare(n, SStr)}
	case srt == "Float":
		return Val{T: vc.freshConst("float", "Float")}
	}
	unsup("constant of type %s", t)
	return Val{}
}

func hashStr(s string) uint32 {
	h := uint32(2166136261)
	for i := 0; i < len(s); i++ {
		h ^= uint32(s[i])
		h *= 16777619
	}
	return h
}

// ---- CFG helpers ----------------------------------------------------------------------------

func isBackEdge(from, to *ssa.BasicBlock) bool { return to.Dominates(from) }

func rpo(fn *ssa.Function) []*ssa.BasicBlock {
	seen := map[*ssa.BasicBlock]bool{}
	var post []*ssa.BasicBlock
	var dfs func(b *ssa.BasicBlock)
	dfs = func(b *ssa.BasicBlock) {
		seen[b] = true
		for _, s := range b.Succs {
			if !seen[s] && !isBackEdge(b, s) {
				dfs(s)
			}
		}
		post = append(post, b)
	}
	dfs(fn.Blocks[0])
	for i, j := 0, len(post)-1; i < j; i, j = i+1, j-1 {
		post[i], post[j] = post[j], post[i]
	}
	return post
}

func findLoops(fn *ssa.Function) map[*ssa.BasicBlock]*loopData {
	loops := map[*ssa.BasicBlock]*loopData{}
	for _, b := range fn.Blocks {
		for _, s := range b.Succs {
			if isBackEdge(b, s) {
				ld := loops[s]
				if ld == nil {
					ld = &loopData{header: s, blocks: map[*ssa.BasicBlock]bool{s: true}}
					loops[s] = ld
				}
				ld.backs = append(ld.backs, b)
				// natural loop: blocks that reach b without passing s
				var stack []*ssa.BasicBlock
				if !ld.blocks[b] {
					ld.blocks[b] = true
					stack = append(stack, b)
				}
				for len(stack) > 0 {
					x := stack[len(stack)-1]
					stack = stack[:len(stack)-1]
					for _, p := range x.Preds {
						if !ld.blocks[p] {
							ld.blocks[p] = true
							stack = append(stack, p)
						}
					}
				}
			}
		}
	}
	for _, ld := range loops {
		for _, ins := range ld.header.Instrs {
			if p, ok := ins.(*ssa.Phi); ok {
				ld.phis = append(ld.phis, p)
			}
		}
	}
	return loops
}

func hasLoops(fn *ssa.Function) bool {
	for _, b := range fn.Blocks {
		for _, s := range b.Succs {
			if isBackEdge(b, s) {
				return true
			}
		}
	}
	return false
}

// loopOrdinals maps SSA loops to source loops: the innermost source loop whose range contains
// every instruction position of the SSA loop.
func (vc *VC) loopOrdinals(fn *ssa.Function, loops map[*ssa.BasicBlock]*loopData, infos []loopInfo) {
	for _, ld := range loops {
		var lo, hi token.Pos
		for b := range ld.blocks {
			for _, ins := range b.Instrs {
				if _, ok := ins.(*ssa.DebugRef); ok {
					continue
				}
				if _, ok := ins.(*ssa.Phi); ok {
					continue // a phi carries the position of the variable's declaration
				}
				p := ins.Pos()
				if !p.IsValid() {
					continue
				}
				if !lo.IsValid() || p < lo {
					lo = p
				}
				if p > hi {
					hi = p
				}
			}
		}
		best := -1
		if lo.IsValid() {
			lop, hip := vc.L.Fset.Position(lo), vc.L.Fset.Position(hi)
			for i, li := range infos {
				if li.File == lop.Filename && li.Pos <= lop.Offset && hip.Offset <= li.End {
					if best < 0 || (infos[best].End-infos[best].Pos) > (li.End-li.Pos) {
						best = i
					}
				}
			}
		}
		ld.ordinal = best + 1
	}
}

// ---- function execution ---------------------------------------------------------------------

// execFunction symbolically executes fn from the given state. Normal exits are returned;
// exceptional exits are appended to vc.xexits.
func (vc *VC) execFunction(fn *ssa.Function, args []Val, bindings []Val, st *State, live Term, old *State, top bool) []Exit {
	if len(fn.Blocks) == 0 {
		unsup("function %s has no body", fn.Name())
	}
	for _, f := range vc.callStack {
		if f == fn {
			unsup("recursive call of %s", fn.Name())
		}
	}
	vc.callStack = append(vc.callStack, fn)
	defer func() { vc.callStack = vc.callStack[:len(vc.callStack)-1] }()

	fr := &Frame{vc: vc, fn: fn, vals: map[ssa.Value]Val{}, old: old, edges: map[*ssa.BasicBlock][]edgeOut{}, bindings: bindings, isTop: top, argVals: args, mapIter: map[ssa.Value]*mapIterState{}, cellOf: map[*ssa.Alloc]int{}, firedKey: map[*loopData]int{}}
	if len(args) != len(fn.Params) {
		unsup("arity mismatch calling %s: %d args for %d params", fn.Name(), len(args), len(fn.Params))
	}
	for i, p := range fn.Params {
		fr.vals[p] = args[i]
	}
	fr.loops = findLoops(fn)
	if len(fr.loops) > 0 {
		if !top {
			unsup("function %s with loops needs a contract to be called", fn.Name())
		}
		name := fn.RelString(vc.L.SPkg.Pkg)
		vc.loopOrdinals(fn, fr.loops, vc.L.LoopVars[name])
	}
	if top {
		fr.spec = vc.L.Con.Funcs[fn.RelString(vc.L.SPkg.Pkg)]
	}
	var exits []Exit
	order := rpo(fn)
	for _, b := range order {
		var conds []Term
		var sts []*State
		var preds []*ssa.BasicBlock
		if b == fn.Blocks[0] {
			conds, sts = []Term{live}, []*State{st}
			preds = []*ssa.BasicBlock{nil}
		} else {
			for _, p := range b.Preds {
				if isBackEdge(p, b) {
					continue
				}
				outs, ok := fr.edges[p]
				if !ok {
					continue
				}
				for k, s := range p.Succs {
					if s == b && k < len(outs) && outs[k].st != nil {
						conds = append(conds, outs[k].cond)
						sts = append(sts, outs[k].st)
						preds = append(preds, p)
					}
				}
			}
		}
		if len(conds) == 0 {
			continue // unreachable
		}
		// a block that only returns is executed once per incoming edge (tail duplication): the
		// postconditions are then checked per path instead of on a merged state
		groups := [][]int{nil}
		if top && len(conds) > 1 && len(conds) <= 4 && len(b.Succs) == 0 && fr.loops[b] == nil && len(b.Instrs) <= 12 && vc.spec == 0 {
			if _, isRet := b.Instrs[len(b.Instrs)-1].(*ssa.Return); isRet {
				groups = nil
				for i := range conds {
					groups = append(groups, []int{i})
				}
			}
		}
		allConds, allSts, allPreds := conds, sts, preds
		for _, grp := range groups {
			if grp != nil {
				conds, sts, preds = []Term{allConds[grp[0]]}, []*State{allSts[grp[0]]}, []*ssa.BasicBlock{allPreds[grp[0]]}
			}
			fr.cur = b
			fr.live = vc.name("reach", orFactor(conds))
			fr.st = vc.mergeStates(conds, sts)
			ld := fr.loops[b]
			// phis
			phiVals := map[*ssa.Phi]Val{}
			for _, ins := range b.Instrs {
				phi, ok := ins.(*ssa.Phi)
				if !ok {
					continue
				}
				var evs []Val
				var cs []Term
				for i := range preds {
					evs = append(evs, fr.val(phi.Edges[predIndex(b, preds[i])]))
					cs = append(cs, relCond(conds[i], fr.live))
				}
				v := vc.mergeVals(cs, evs)
				phiVals[phi] = v
			}
			if ld != nil {
				fr.enterLoop(ld, phiVals)
			} else {
				for p, v := range phiVals {
					if v.Tup == nil {
						v.T = vc.name(p.Name(), v.T)
					}
					fr.vals[p] = v
				}
			}
			// instructions
			terminated := false
			for _, ins := range b.Instrs {
				if _, ok := ins.(*ssa.Phi); ok {
					continue
				}
				if fr.live.S == "false" {
					break
				}
				switch t := ins.(type) {
				case *ssa.If:
					c := fr.term(t.Cond)
					fr.setEdges(b, []Term{and(fr.live, c), and(fr.live, not(c))})
					terminated = true
				case *ssa.Jump:
					fr.setEdges(b, []Term{fr.live})
					terminated = true
				case *ssa.Return:
					if fr.isTop {
						fr.runAsserts("return", t.Pos())
					}
					var res []Val
					for _, r := range t.Results {
						res = append(res, fr.val(r))
					}
					exits = append(exits, Exit{Cond: fr.live, St: fr.st, Res: res, Pos: t.Pos()})
					terminated = true
				case *ssa.Panic:
					fr.xexit(fr.live, "panic", t.Pos())
					terminated = true
				default:
					fr.execInstr(ins)
				}
				if terminated {
					break
				}
			}
		}
	}
	return exits
}

// phiBoolDNF computes OR_i (c_i and v_i), factoring out the conjuncts common to all disjuncts
// and resolving unit literals, so that short-circuit conjunctions stay flat conjunctions.
func phiBoolDNF(cs, vs []Term) Term {
	var parts [][]Term
	for i := range cs {
		t := and(cs[i], vs[i])
		if t.S == "false" {
			continue
		}
		parts = append(parts, splitConj(t))
	}
	if len(parts) == 0 {
		return tFalse
	}
	if len(parts) == 1 {
		return and(parts[0]...)
	}
	var common []Term
	for _, c := range parts[0] {
		inAll := true
		for _, p := range parts[1:] {
			found := false
			for _, d := range p {
				if d.S == c.S {
					found = true
				}
			}
			if !found {
				inAll = false
			}
		}
		if inAll {
			common = append(common, c)
		}
	}
	isCommon := func(t Term) bool {
		for _, c := range common {
			if c.S == t.S {
				return true
			}
		}
		return false
	}
	var rests [][]Term
	for _, p := range parts {
		var r []Term
		for _, d := range p {
			if !isCommon(d) {
				r = append(r, d)
			}
		}
		if len(r) == 0 {
			return and(common...)
		}
		rests = append(rests, r)
	}
	// unit resolution
	for i, r := range rests {
		if len(r) != 1 {
			continue
		}
		neg := not(r[0])
		for j := range rests {
			if j == i {
				continue
			}
			var nr []Term
			for _, d := range rests[j] {
				if d.S != neg.S {
					nr = append(nr, d)
				}
			}
			rests[j] = nr
		}
	}
	var ds []Term
	for _, r := range rests {
		ds = append(ds, and(r...))
	}
	return and(append(common, or(ds...))...)
}

// relCond simplifies an edge condition relative to the (already established) block reachability:
// conjuncts of the edge condition that are conjuncts of the reachability are dropped.
func relCond(c, live Term) Term {
	lc := map[string]bool{}
	for _, t := range splitConj(live) {
		lc[t.S] = true
	}
	var out []Term
	for _, t := range splitConj(c) {
		if !lc[t.S] {
			out = append(out, t)
		}
	}
	return and(out...)
}

func orFactor(ts []Term) Term {
	vs := make([]Term, len(ts))
	for i := range vs {
		vs[i] = tTrue
	}
	return phiBoolDNF(ts, vs)
}

// mergeVals merges values along mutually exclusive, exhaustive conditions.
func (vc *VC) mergeVals(cs []Term, vs []Val) Val {
	if len(vs) == 1 {
		return vs[0]
	}
	if vs[0].Tup == nil && vs[0].T.Sort == SBool {
		hasFalse := false
		ts := make([]Term, len(vs))
		for i, v := range vs {
			ts[i] = v.T
			if v.T.S == "false" {
				hasFalse = true
			}
		}
		if hasFalse {
			return Val{T: phiBoolDNF(cs, ts)}
		}
		var parts []Term
		for i := range vs {
			parts = append(parts, or(not(cs[i]), ts[i]))
		}
		return Val{T: and(parts...)}
	}
	v := vs[len(vs)-1]
	for i := len(vs) - 2; i >= 0; i-- {
		v = vc.iteVal(cs[i], vs[i], v)
	}
	return v
}

func (vc *VC) sortOfSafe(t types.Type) (s string) {
	defer func() {
		if r := recover(); r != nil {
			s = ""
		}
	}()
	if _, ok := t.(*types.Tuple); ok {
		return ""
	}
	return vc.sortOf(t)
}

func predIndex(b, p *ssa.BasicBlock) int {
	for i, q := range b.Preds {
		if q == p {
			return i
		}
	}
	return -1
}

func (fr *Frame) setEdges(b *ssa.BasicBlock, conds []Term) {
	outs := make([]edgeOut, len(b.Succs))
	for k, s := range b.Succs {
		c := conds[k]
		if ld := fr.loops[s]; ld != nil && isBackEdge(b, s) {
			fr.backEdge(ld, b, c)
			continue
		}
		outs[k] = edgeOut{cond: c, st: fr.st}
	}
	fr.edges[b] = outs
}

func (fr *Frame) xexit(cond Term, what string, pos token.Pos) {
	if fr.vc.spec > 0 {
		return
	}
	fr.vc.xexits = append(fr.vc.xexits, Exit{Cond: cond, St: fr.st.clone(), What: what, Pos: pos, NAss: len(fr.vc.asserts)})
}

// check adds a safety obligation (or an exceptional exit when the function declares panics)
// and continues under the assumption that it holds.
func (fr *Frame) check(kind, what string, ok Term, pos token.Pos) {
	vc := fr.vc
	if vc.spec > 0 || ok.S == "true" {
		return
	}
	fr.xexit(and(fr.live, not(ok)), kind+"("+what+")", pos)
	fr.live = vc.name("live", and(fr.live, ok))
}

func (vc *VC) iteVal(c Term, a, b Val) Val {
	if a.Tup != nil {
		out := Val{Tup: make([]Val, len(a.Tup))}
		for i := range a.Tup {
			out.Tup[i] = vc.iteVal(c, a.Tup[i], b.Tup[i])
		}
		return out
	}
	r := Val{T: ite(c, a.T, b.T)}
	if a.Clo != nil && b.Clo != nil && a.Clo.fn == b.Clo.fn && a.T.S == b.T.S {
		r.Clo = a.Clo
	}
	return r
}

// ---- loops ----------------------------------------------------------------------------------

func (fr *Frame) loopClauses(ld *loopData, kind string) []*Clause {
	var out []*Clause
	if fr.spec == nil || ld.ordinal == 0 {
		return nil
	}
	for _, c := range fr.spec.Clauses {
		if c.Kind == kind && c.Loop == ld.ordinal && !staleFuncs[c.FuncName] {
			out = append(out, c)
		}
	}
	return out
}

// resolveLoopVar finds the SSA value that holds source variable v at the head of the loop.
func (fr *Frame) resolveLoopVar(ld *loopData, v loopVar, phiVals map[*ssa.Phi]Val) (Val, bool) {
	vc := fr.vc
	same := func(o types.Object) bool {
		if o == nil || o.Name() != v.Name {
			return false
		}
		p := vc.L.Fset.Position(o.Pos())
		return p.Filename == v.File && p.Offset == v.Off
	}
	var bestVal ssa.Value
	var bestAddr bool
	bestDepth := -1
	for _, b := range fr.fn.Blocks {
		for idx, ins := range b.Instrs {
			d, ok := ins.(*ssa.DebugRef)
			if !ok || !same(d.Object()) {
				continue
			}
			_ = idx
			x := d.X
			if phi, ok := x.(*ssa.Phi); ok && phi.Block() == ld.header {
				if pv, ok := phiVals[phi]; ok {
					return pv, true
				}
			}
			// definition must be available at the loop head
			var defBlock *ssa.BasicBlock
			if ins2, ok := x.(ssa.Instruction); ok {
				defBlock = ins2.Block()
			}
			if defBlock != nil && (!defBlock.Dominates(ld.header) || defBlock == ld.header || ld.blocks[defBlock]) {
				continue
			}
			// the reference itself should not be after the loop in a way that denotes a later value:
			// prefer the reference whose block dominates the header, deepest first
			depth := 0
			if b.Dominates(ld.header) && !ld.blocks[b] {
				depth = 1000 + domDepth(b)
			} else if ld.blocks[b] {
				depth = 500
			}
			if depth > bestDepth {
				bestDepth, bestVal, bestAddr = depth, x, d.IsAddr
			}
		}
	}
	// phi with matching comment
	for _, phi := range ld.phis {
		if phi.Comment == v.Name {
			if pv, ok := phiVals[phi]; ok {
				return pv, true
			}
		}
	}
	if bestVal != nil {
		if _, ok := fr.vals[bestVal]; !ok {
			switch bestVal.(type) {
			case *ssa.Const, *ssa.Global, *ssa.Function, *ssa.Parameter, *ssa.FreeVar:
			default:
				return Val{}, false
			}
		}
		x := fr.val(bestVal)
		if bestAddr {
			if x.Cell != nil {
				return fr.cellGet(x.Cell), true
			}
			pt := bestVal.Type().Underlying().(*types.Pointer).Elem()
			return Val{T: vc.loadAt(fr.st, x.T, pt)}, true
		}
		return x, true
	}
	for _, p := range fr.fn.Params {
		if same(p.Object()) {
			return fr.val(p), true
		}
	}
	return Val{}, false
}

func domDepth(b *ssa.BasicBlock) int {
	d := 0
	for x := b.Idom(); x != nil; x = x.Idom() {
		d++
	}
	return d
}

func (fr *Frame) evalLoopClause(ld *loopData, cl *Clause, phiVals map[*ssa.Phi]Val) Term {
	vc := fr.vc
	cf := vc.L.SPkg.Func(cl.FuncName)
	if cf == nil {
		unsup("clause function %s missing", cl.FuncName)
	}
	name := fr.fn.RelString(vc.L.SPkg.Pkg)
	infos := vc.L.LoopVars[name]
	li := infos[ld.ordinal-1]
	var args []Val
	seen := map[string]bool{}
	for _, v := range li.Vars {
		if seen[v.Name] || v.Name == "_" {
			continue
		}
		seen[v.Name] = true
		x, ok := fr.resolveLoopVar(ld, v, phiVals)
		if !ok {
			srt := vc.sortOf(v.Type)
			x = Val{T: vc.freshConst("unresolved_"+v.Name, srt)}
		}
		args = append(args, x)
	}
	args = append(args, fr.rangeIdx(ld, phiVals))
	args = append(args, fr.argVals...)
	r := vc.evalSpec(cf, args, fr.st, fr.old)
	return r.T
}

// rangeIdx: the number of elements a range loop has completed at its head: the hidden counter
// of "range slice" loops starts at -1 and is incremented before the body, that of "range int"
// loops starts at 0.
func (fr *Frame) rangeIdx(ld *loopData, phiVals map[*ssa.Phi]Val) Val {
	for _, phi := range ld.phis {
		v, ok := phiVals[phi]
		if !ok {
			if fv, ok2 := fr.vals[phi]; ok2 {
				v, ok = fv, true
			}
		}
		if !ok || bvWidth(v.T.Sort) <= 0 {
			continue
		}
		if phi.Comment != "rangeindex" && phi.Comment != "rangeint.iter" {
			continue
		}
		if w := bvWidth(v.T.Sort); w < 64 {
			// a counter of a narrower integer type (for i := range n with n int32, uint8, ...)
			ext := "zero_extend"
			if isSigned(fr.vc.rt(phi.Type())) {
				ext = "sign_extend"
			}
			v = Val{T: Term{fmt.Sprintf("((_ %s %d) %s)", ext, 64-w, v.T.S), bvSort(64)}}
		}
		switch phi.Comment {
		case "rangeindex":
			return Val{T: app(v.T.Sort, "bvadd", v.T, bvLit(1, 64))}
		case "rangeint.iter":
			return v
		}
	}
	return Val{T: fr.vc.freshConst("noidx", bvSort(64))}
}

// evalPointClause evaluates a clause over the loop's variables with their values at the current
// point of an iteration (body-local variables such as the range value included).
func (fr *Frame) evalPointClause(ld *loopData, cl *Clause, at *ssa.BasicBlock) Term {
	vc := fr.vc
	cf := vc.L.SPkg.Func(cl.FuncName)
	if cf == nil {
		unsup("clause function %s missing", cl.FuncName)
	}
	name := fr.fn.RelString(vc.L.SPkg.Pkg)
	li := vc.L.LoopVars[name][ld.ordinal-1]
	var args []Val
	seen := map[string]bool{}
	for _, v := range li.Vars {
		if seen[v.Name] || v.Name == "_" {
			continue
		}
		seen[v.Name] = true
		x, ok := fr.resolveVarAt(at, v)
		if !ok {
			x = Val{T: vc.freshConst("unresolved_"+v.Name, vc.sortOf(v.Type))}
		}
		args = append(args, x)
	}
	args = append(args, fr.rangeIdx(ld, nil))
	args = append(args, fr.argVals...)
	return vc.evalSpec(cf, args, fr.st, fr.old).T
}

// resolveVarAt: the SSA value bound to a source variable whose definition dominates block at.
func (fr *Frame) resolveVarAt(at *ssa.BasicBlock, v loopVar) (Val, bool) {
	vc := fr.vc
	same := func(o types.Object) bool {
		if o == nil || o.Name() != v.Name {
			return false
		}
		p := vc.L.Fset.Position(o.Pos())
		return p.Filename == v.File && p.Offset == v.Off
	}
	var best ssa.Value
	bestAddr := false
	bestDepth := -1
	for _, b := range fr.fn.Blocks {
		if !(b == at || b.Dominates(at)) {
			continue
		}
		for _, ins := range b.Instrs {
			d, ok := ins.(*ssa.DebugRef)
			if !ok || !same(d.Object()) {
				continue
			}
			if _, have := fr.vals[d.X]; !have {
				switch d.X.(type) {
				case *ssa.Const, *ssa.Parameter, *ssa.Global, *ssa.Function, *ssa.FreeVar:
				default:
					continue
				}
			}
			if dd := domDepth(b); dd >= bestDepth {
				best, bestAddr, bestDepth = d.X, d.IsAddr, dd
			}
		}
	}
	if best == nil {
		for _, p := range fr.fn.Params {
			if same(p.Object()) {
				return fr.val(p), true
			}
		}
		return Val{}, false
	}
	x := fr.val(best)
	if bestAddr {
		if x.Cell != nil {
			return fr.cellGet(x.Cell), true
		}
		pt := best.Type().Underlying().(*types.Pointer).Elem()
		return Val{T: vc.loadAt(fr.st, x.T, pt)}, true
	}
	return x, true
}

func (fr *Frame) enterLoop(ld *loopData, entryPhi map[*ssa.Phi]Val) {
	vc := fr.vc
	invs := fr.loopClauses(ld, "invariant")
	if vc.spec > 0 {
		unsup("loop in specification function")
	}
	lname := fmt.Sprintf("L%d", ld.ordinal)
	// 1. invariants hold on entry
	for k, cl := range invs {
		t := fr.evalLoopClause(ld, cl, entryPhi)
		vc.obligeSplit("inv-init", fmt.Sprintf("%s#inv-init[%s.%s]", fr.fname(), lname, clauseLabel(cl, k)), fr.live, t, cl)
	}
	if len(invs) > 0 {
		vc.deps = append(vc.deps, fmt.Sprintf("@loop:%s#%s.", fr.fname(), lname))
	}
	// 2. havoc what the loop may modify
	mods, all := vc.modOfBlocks(fr.fn, ld.blocks)
	if all {
		vc.havocAll(fr.st)
	} else {
		n := vc.freshConst("nalloc", SInt)
		vc.assume(app(SBool, "<=", fr.st.nalloc, n))
		fr.st.nalloc = n
		var names []string
		for h := range mods {
			names = append(names, h)
		}
		sort.Strings(names)
		for _, h := range names {
			vc.havocHeap(fr.st, h)
		}
	}
	for _, key := range fr.cellsStoredIn(ld) {
		if cur, ok := fr.st.cells[key]; ok && cur.Tup == nil {
			fr.st.cells[key] = Val{T: vc.freshConst("cell", cur.T.Sort)}
		}
	}
	hav := map[*ssa.Phi]Val{}
	for _, phi := range ld.phis {
		v := vc.freshVal(phi.Name(), phi.Type())
		hav[phi] = v
		fr.vals[phi] = v
		vc.assumeWFVal(fr.st, v, phi.Type())
	}
	// 3. assume invariants
	for _, cl := range invs {
		t := fr.evalLoopClause(ld, cl, hav)
		vc.assume(implies(fr.live, t))
	}
	if len(fr.loopClauses(ld, "fires")) > 0 {
		vc.ncell++
		fr.firedKey[ld] = vc.ncell
		fr.st.cells[vc.ncell] = Val{T: tFalse}
	}
	// automatic invariant for integer range counters: 0 <= i (signed) is implied by i < n checks
	fr.autoRangeInv(ld, hav)
}

// autoRangeInv: for "for i := range n" loops go/ssa emits phi #rangeint.iter starting at 0 and
// incremented by one while i+1 < n; then 0 <= i < n holds at the head.
func (fr *Frame) autoRangeInv(ld *loopData, hav map[*ssa.Phi]Val) {
	vc := fr.vc
	for _, phi := range ld.phis {
		if phi.Comment != "rangeint.iter" && phi.Comment != "rangeindex" {
			continue
		}
		// find back edge increment and its bound test
		for _, e := range phi.Edges {
			bo, ok := e.(*ssa.BinOp)
			if !ok || bo.Op != token.ADD || bo.X != phi {
				continue
			}
			refs := bo.Referrers()
			if refs == nil {
				continue
			}
			for _, r := range *refs {
				cmp, ok := r.(*ssa.BinOp)
				if !ok || cmp.Op != token.LSS || cmp.X != bo {
					continue
				}
				if _, ok := fr.vals[cmp.Y]; !ok {
					if _, isConst := cmp.Y.(*ssa.Const); !isConst {
						if _, isParam := cmp.Y.(*ssa.Parameter); !isParam {
							continue
						}
					}
				}
				bound := fr.term(cmp.Y)
				i := hav[phi].T
				w := bvWidth(i.Sort)
				if phi.Comment == "rangeindex" {
					// the hidden counter of a range-over-slice loop runs from -1 to len-1 at the loop head
					vc.assume(implies(fr.live, and(app(SBool, "bvsle", bvLit(0xffffffffffffffff, w), i), app(SBool, "bvslt", i, bound))))
				} else if isSigned(phi.Type()) {
					vc.assume(implies(fr.live, and(app(SBool, "bvsle", bvLit(0, w), i), app(SBool, "bvslt", i, bound))))
				} else {
					vc.assume(implies(fr.live, app(SBool, "bvult", i, bound)))
				}
			}
		}
	}
}

// cellsStoredIn lists the local cells (allocated before the loop) that the loop body stores to.
func (fr *Frame) cellsStoredIn(ld *loopData) []int {
	seen := map[int]bool{}
	var out []int
	for b := range ld.blocks {
		for _, ins := range b.Instrs {
			st, ok := ins.(*ssa.Store)
			if !ok {
				continue
			}
			v := st.Addr
			for {
				switch u := v.(type) {
				case *ssa.FieldAddr:
					v = u.X
					continue
				case *ssa.IndexAddr:
					v = u.X
					continue
				}
				break
			}
			if a, ok := v.(*ssa.Alloc); ok {
				if k, ok := fr.cellOf[a]; ok && !ld.blocks[a.Block()] && !seen[k] {
					seen[k] = true
					out = append(out, k)
				}
			}
		}
	}
	sort.Ints(out)
	return out
}

func (fr *Frame) backEdge(ld *loopData, from *ssa.BasicBlock, cond Term) {
	vc := fr.vc
	invs := fr.loopClauses(ld, "invariant")
	idx := predIndex(ld.header, from)
	phiVals := map[*ssa.Phi]Val{}
	for _, phi := range ld.phis {
		phiVals[phi] = fr.val(phi.Edges[idx])
	}
	lname := fmt.Sprintf("L%d", ld.ordinal)
	for k, cl := range invs {
		t := fr.evalLoopClause(ld, cl, phiVals)
		vc.obligeSplit("inv-pres", fmt.Sprintf("%s#inv-pres[%s.%s]", fr.fname(), lname, clauseLabel(cl, k)), cond, t, cl)
	}
	if key, ok := fr.firedKey[ld]; ok {
		fired := fr.st.cells[key].T
		for k, cl := range fr.loopClauses(ld, "fires") {
			// at the end of an iteration: if the documented predicate held for this element, the
			// callback has run in this iteration (the state is unchanged on paths without a callback)
			p := fr.evalPointClause(ld, cl, from)
			vc.oblige("fires<=", fmt.Sprintf("%s#fires<=[%s.%s]", fr.fname(), lname, clauseLabel(cl, k)), cond, implies(p, fired), from.Instrs[len(from.Instrs)-1].Pos())
		}
	}
}

func clauseLabel(cl *Clause, k int) string {
	if cl.Label != "" {
		return cl.Label
	}
	t := cl.Text
	if len(t) > 60 {
		t = t[:60] + "…"
	}
	return t
}

func (fr *Frame) fname() string { return fr.vc.Top.RelString(fr.vc.L.SPkg.Pkg) }

func (vc *VC) freshVal(prefix string, t types.Type) Val {
	t = vc.rt(t)
	if tup, ok := t.(*types.Tuple); ok {
		v := Val{Tup: make([]Val, tup.Len())}
		for i := 0; i < tup.Len(); i++ {
			v.Tup[i] = vc.freshVal(fmt.Sprintf("%s_%d", prefix, i), tup.At(i).Type())
		}
		return v
	}
	return Val{T: vc.freshConst(prefix, vc.sortOf(t))}
}

func (vc *VC) assumeWFVal(st *State, v Val, t types.Type) {
	if v.Tup != nil {
		tup := t.(*types.Tuple)
		for i := range v.Tup {
			vc.assumeWFVal(st, v.Tup[i], tup.At(i).Type())
		}
		return
	}
	vc.assumeWF(st, v.T, t)
	// struct values containing slices/pointers
	if si, ok := vc.S.structs[vc.S.typeKey(types.Unalias(vc.rt(t)))+vc.S.substKey()]; ok && si.Go != nil && v.T.Sort == si.Sort {
		for i := 0; i < si.Go.NumFields(); i++ {
			if si.FSorts[i] == SSlice || si.FSorts[i] == SPtr {
				vc.assumeWF(st, si.get(v.T, i), si.Go.Field(i).Type())
			}
		}
	}
}

// ---- instruction execution ------------------------------------------------------------------

func (fr *Frame) set(v ssa.Value, t Term) {
	fr.vals[v] = Val{T: fr.vc.name(v.Name(), t)}
}

func (fr *Frame) execInstr(ins ssa.Instruction) {
	vc := fr.vc
	switch t := ins.(type) {
	case *ssa.DebugRef:
		return
	case *ssa.Alloc:
		et := t.Type().Underlying().(*types.Pointer).Elem()
		if t.Comment == "makeslice" {
			// make([]T, const) is compiled to new [N]T + slice; handled at the Slice instruction
			fr.vals[t] = Val{T: tNil}
			return
		}
		if vc.spec > 0 || isLocalAlloc(t) {
			vc.ncell++
			fr.st.cells[vc.ncell] = Val{T: vc.zeroOf(et)}
			fr.vals[t] = Val{T: tNil, Cell: &cellRef{key: vc.ncell, typ: et}}
			fr.cellOf[t] = vc.ncell
			return
		}
		p := vc.newAlloc(fr.st, false)
		vc.markFresh(et)
		// memory is zero-initialised
		vc.storeAt(fr.st, p, et, vc.zeroOf(et))
		fr.vals[t] = Val{T: p}
	case *ssa.BinOp:
		fr.set(t, fr.binop(t))
	case *ssa.UnOp:
		fr.unop(t)
	case *ssa.FieldAddr:
		if xv := fr.val(t.X); xv.Cell != nil {
			st := vc.rt(t.X.Type()).Underlying().(*types.Pointer).Elem()
			fr.vals[t] = Val{T: tNil, Cell: xv.Cell.extend(cellStep{field: t.Field, cont: st})}
			return
		}
		x := fr.term(t.X)
		fr.checkNonNil(t.X, x, t.Pos())
		fr.vals[t] = Val{T: fieldPtr(x, t.Field)}
		fr.markNonNil(fr.vals[t].T)
	case *ssa.Field:
		si := vc.structInfo(t.X.Type())
		fr.set(t, si.get(fr.term(t.X), t.Field))
	case *ssa.IndexAddr:
		fr.indexAddr(t)
	case *ssa.Index:
		fr.index(t)
	case *ssa.Store:
		if a := fr.val(t.Addr); a.Cell != nil {
			fr.cellSet(a.Cell, fr.val(t.Val))
			return
		}
		fr.store(t.Addr, fr.val(t.Val), t.Pos())
	case *ssa.Convert:
		fr.set(t, fr.convert(fr.term(t.X), t.X.Type(), t.Type()))
	case *ssa.ChangeType:
		v := fr.val(t.X)
		fr.vals[t] = v
	case *ssa.MultiConvert:
		fr.set(t, fr.convert(fr.term(t.X), t.X.Type(), t.Type()))
	case *ssa.ChangeInterface:
		fr.vals[t] = fr.val(t.X)
	case *ssa.MakeInterface:
		xv := fr.val(t.X)
		fr.vals[t] = Val{T: vc.box(xv.T, t.X.Type()), Clo: xv.Clo}
	case *ssa.TypeAssert:
		fr.typeAssert(t)
	case *ssa.Extract:
		tv := fr.val(t.Tuple)
		if tv.Tup == nil {
			unsup("extract from non-tuple")
		}
		fr.vals[t] = tv.Tup[t.Index]
	case *ssa.Slice:
		fr.slice(t)
	case *ssa.MakeSlice:
		fr.makeSlice(t)
	case *ssa.MakeMap:
		p := vc.newAlloc(fr.st, false)
		mt := t.Type().Underlying().(*types.Map)
		has, val, ln, ks, _ := vc.mapHeaps(mt)
		if vc.freshHeaps == nil {
			vc.freshHeaps = map[string]bool{}
		}
		vc.freshHeaps[has], vc.freshHeaps[val], vc.freshHeaps[ln] = true, true, true
		vc.heapWrite(fr.st, has, p, Term{fmt.Sprintf("((as const (Array %s Bool)) false)", ks), arraySort(ks, SBool)})
		vc.heapWrite(fr.st, ln, p, bvLit(0, 64))
		fr.vals[t] = Val{T: p}
	case *ssa.MapUpdate:
		fr.mapUpdate(t)
	case *ssa.Lookup:
		fr.lookup(t)
	case *ssa.MakeClosure:
		var bs []Val
		for _, b := range t.Bindings {
			bs = append(bs, fr.val(b))
		}
		f := t.Fn.(*ssa.Function)
		fr.vals[t] = Val{T: vc.freshConst("closure", SFunc), Clo: &closureVal{fn: f, bindings: bs}}
	case *ssa.Call:
		fr.call(t)
	case *ssa.Range:
		fr.rangeInit(t)
	case *ssa.Next:
		fr.rangeNext(t)
	case *ssa.SliceToArrayPointer:
		unsup("slice to array pointer")
	case *ssa.RunDefers:
		return
	case *ssa.Defer, *ssa.Go, *ssa.Select, *ssa.Send:
		unsup("unsupported instruction %T", ins)
	default:
		unsup("unsupported instruction %T", ins)
	}
}

func (fr *Frame) markNonNil(t Term) {
	if fr.vc.nonNil == nil {
		fr.vc.nonNil = map[string]bool{}
	}
	fr.vc.nonNil[t.S] = true
}

func (fr *Frame) checkNonNil(v ssa.Value, x Term, pos token.Pos) {
	switch v.(type) {
	case *ssa.Alloc, *ssa.FieldAddr, *ssa.IndexAddr, *ssa.Global:
		return
	}
	if fr.isTop && fr.fn.Signature.Recv() != nil && len(fr.fn.Params) > 0 && v == fr.fn.Params[0] {
		return // the receiver of the function under proof is non-nil by implicit precondition
	}
	// (the receiver of an inlined method is whatever the caller passed: a nil receiver faults at
	// its first dereference, here)
	if fr.vc.spec > 0 {
		return
	}
	// the result of an address computation that was itself checked (&s[i], &p.f) is not nil: no
	// second check when it is passed on as the receiver of an inlined method
	if fr.vc.nonNil[x.S] {
		return
	}
	fr.check("nil", v.Name(), not(isNil(x)), pos)
}

func (vc *VC) box(v Term, t types.Type) Term {
	fn := "box_" + sanitize(v.Sort)
	if _, ok := vc.declared[fn]; !ok {
		vc.declared[fn] = "fun"
		vc.decls = append(vc.decls, fmt.Sprintf("(declare-fun %s (%s) Iface)", fn, v.Sort))
	}
	return app(SIface, fn, v)
}

func (fr *Frame) typeAssert(t *ssa.TypeAssert) {
	vc := fr.vc
	x := fr.term(t.X)
	at := vc.rt(t.AssertedType)
	srt := vc.sortOf(at)
	if srt == SIface {
		if t.CommaOk {
			ok := vc.freshConst("ok", SBool)
			fr.vals[t] = Val{Tup: []Val{{T: x}, {T: ok}}}
			return
		}
		fr.vals[t] = Val{T: x}
		return
	}
	fn := "unbox_" + sanitize(srt)
	if _, ok := vc.declared[fn]; !ok {
		vc.declared[fn] = "fun"
		vc.decls = append(vc.decls, fmt.Sprintf("(declare-fun %s (Iface) %s)", fn, srt))
	}
	okT := vc.freshConst("ok", SBool)
	v := app(srt, fn, x)
	if t.CommaOk {
		fr.vals[t] = Val{Tup: []Val{{T: v}, {T: okT}}}
		return
	}
	fr.check("typeassert", t.X.Name(), okT, t.Pos())
	fr.set(t, v)
}

func (fr *Frame) binop(t *ssa.BinOp) Term {
	vc := fr.vc
	x, y := fr.term(t.X), fr.term(t.Y)
	xt := vc.rt(t.X.Type())
	w := bvWidth(x.Sort)
	signed := isSigned(xt)
	b := func(op string) Term { return app(x.Sort, op, x, y) }
	c := func(op string) Term { return app(SBool, op, x, y) }
	switch t.Op {
	case token.ADD:
		if w == 0 {
			unsup("+ on %s", xt)
		}
		return b("bvadd")
	case token.SUB:
		return b("bvsub")
	case token.MUL:
		return b("bvmul")
	case token.QUO:
		fr.check("div", t.Y.Name(), not(eq(y, bvLit(0, w))), t.Pos())
		if signed {
			return b("bvsdiv")
		}
		return b("bvudiv")
	case token.REM:
		fr.check("div", t.Y.Name(), not(eq(y, bvLit(0, w))), t.Pos())
		if signed {
			return b("bvsrem")
		}
		return b("bvurem")
	case token.AND:
		if x.Sort == SBool {
			return and(x, y)
		}
		return b("bvand")
	case token.OR:
		if x.Sort == SBool {
			return or(x, y)
		}
		return b("bvor")
	case token.XOR:
		return b("bvxor")
	case token.AND_NOT:
		return app(x.Sort, "bvand", x, app(x.Sort, "bvnot", y))
	case token.SHL, token.SHR:
		wy := bvWidth(y.Sort)
		if isSigned(vc.rt(t.Y.Type())) {
			fr.check("shift", t.Y.Name(), app(SBool, "bvsge", y, bvLit(0, wy)), t.Pos())
		}
		// bring the count to the width of x, saturating
		var cnt Term
		var big Term
		switch {
		case wy == w:
			cnt, big = y, app(SBool, "bvuge", y, bvLit(uint64(w), w))
		case wy < w:
			cnt = Term{fmt.Sprintf("((_ zero_extend %d) %s)", w-wy, y.S), x.Sort}
			big = app(SBool, "bvuge", cnt, bvLit(uint64(w), w))
		default:
			cnt = Term{fmt.Sprintf("((_ extract %d 0) %s)", w-1, y.S), x.Sort}
			big = app(SBool, "bvuge", y, bvLit(uint64(w), wy))
		}
		if t.Op == token.SHL {
			return ite(big, bvLit(0, w), app(x.Sort, "bvshl", x, cnt))
		}
		if signed {
			return ite(big, app(x.Sort, "bvashr", x, bvLit(uint64(w-1), w)), app(x.Sort, "bvashr", x, cnt))
		}
		return ite(big, bvLit(0, w), app(x.Sort, "bvlshr", x, cnt))
	case token.EQL:
		return fr.equal(x, y, t.X.Type())
	case token.NEQ:
		return not(fr.equal(x, y, t.X.Type()))
	case token.LSS:
		if w == 0 {
			unsup("< on %s", xt)
		}
		if signed {
			return c("bvslt")
		}
		return c("bvult")
	case token.LEQ:
		if signed {
			return c("bvsle")
		}
		return c("bvule")
	case token.GTR:
		if signed {
			return c("bvsgt")
		}
		return c("bvugt")
	case token.GEQ:
		if signed {
			return c("bvsge")
		}
		return c("bvuge")
	}
	unsup("binop %s", t.Op)
	return Term{}
}

func (fr *Frame) equal(x, y Term, t types.Type) Term {
	if x.Sort == SPtr {
		// nil comparisons
		if y.S == "nilptr" {
			return isNil(x)
		}
		if x.S == "nilptr" {
			return isNil(y)
		}
	}
	if x.Sort == SSlice {
		if y.S == "nilslice" {
			return isNil(sptr(x))
		}
		if x.S == "nilslice" {
			return isNil(sptr(y))
		}
		unsup("slice comparison")
	}
	return eq(x, y)
}

func (fr *Frame) convert(x Term, from, to types.Type) Term {
	vc := fr.vc
	from, to = vc.rt(from), vc.rt(to)
	ss, ds := vc.sortOf(from), vc.sortOf(to)
	if ss == ds {
		return x
	}
	ws, wd := bvWidth(ss), bvWidth(ds)
	if ws > 0 && wd > 0 {
		switch {
		case wd < ws:
			return Term{fmt.Sprintf("((_ extract %d 0) %s)", wd-1, x.S), ds}
		case isSigned(from):
			return Term{fmt.Sprintf("((_ sign_extend %d) %s)", wd-ws, x.S), ds}
		default:
			return Term{fmt.Sprintf("((_ zero_extend %d) %s)", wd-ws, x.S), ds}
		}
	}
	if ss == SPtr && wd > 0 || ws > 0 && ds == SPtr {
		unsup("pointer/integer conversion")
	}
	unsup("conversion %s -> %s", from, to)
	return Term{}
}

func (fr *Frame) unop(t *ssa.UnOp) {
	vc := fr.vc
	switch t.Op {
	case token.MUL: // load
		if g, ok := t.X.(*ssa.Global); ok {
			if f := vc.constFuncGlobal(g); f != nil {
				fr.vals[t] = Val{T: vc.funcConst(f), Clo: &closureVal{fn: f}}
				return
			}
		}
		if a := fr.val(t.X); a.Cell != nil {
			fr.vals[t] = fr.cellGet(a.Cell)
			return
		}
		fr.vals[t] = Val{T: vc.name(t.Name(), fr.load(t.X, t.Pos()))}
		vc.assumeWFVal(fr.st, fr.vals[t], t.Type())
	case token.NOT:
		fr.set(t, not(fr.term(t.X)))
	case token.SUB:
		x := fr.term(t.X)
		fr.set(t, app(x.Sort, "bvneg", x))
	case token.XOR:
		x := fr.term(t.X)
		fr.set(t, app(x.Sort, "bvnot", x))
	default:
		unsup("unop %s", t.Op)
	}
}

// arrayElemAddr describes a pointer into a fixed-size array value.
type arrayElemAddr struct {
	parent ssa.Value // pointer to the array
	idx    Term
	n      int64
}

func (fr *Frame) arrayProv(addr ssa.Value) (*ssa.IndexAddr, bool) {
	ia, ok := addr.(*ssa.IndexAddr)
	if !ok {
		return nil, false
	}
	if pt, ok := fr.vc.rt(ia.X.Type()).Underlying().(*types.Pointer); ok {
		if _, ok := pt.Elem().Underlying().(*types.Array); ok {
			return ia, true
		}
	}
	return nil, false
}

// load reads through the address value, using static provenance to pick the heap.
func (fr *Frame) load(addr ssa.Value, pos token.Pos) Term {
	vc := fr.vc
	et := vc.rt(addr.Type()).Underlying().(*types.Pointer).Elem()
	if ia, ok := fr.arrayProv(addr); ok {
		arr := fr.load(ia.X, pos)
		at := vc.rt(ia.X.Type()).Underlying().(*types.Pointer).Elem()
		return fr.arrayGet(arr, at, fr.term(ia.Index), ia.Index.Type())
	}
	if fa, ok := addr.(*ssa.FieldAddr); ok {
		st := vc.rt(fa.X.Type()).Underlying().(*types.Pointer).Elem()
		return vc.loadField(fr.st, fr.term(fa.X), st, fa.Field)
	}
	p := fr.term(addr)
	fr.checkNonNil(addr, p, pos)
	return vc.loadAt(fr.st, p, et)
}

// constFuncGlobal resolves a package-level variable of function type that is assigned exactly
// once (in the package initialiser) to a function.
func (vc *VC) constFuncGlobal(g *ssa.Global) *ssa.Function {
	if f, ok := vc.funcGlobals[g]; ok {
		return f
	}
	if vc.funcGlobals == nil {
		vc.funcGlobals = map[*ssa.Global]*ssa.Function{}
	}
	var found *ssa.Function
	n := 0
	for _, m := range vc.L.SPkg.Members {
		fn, ok := m.(*ssa.Function)
		if !ok {
			continue
		}
		var visit func(f *ssa.Function)
		visit = func(f *ssa.Function) {
			for _, b := range f.Blocks {
				for _, ins := range b.Instrs {
					if st, ok := ins.(*ssa.Store); ok && st.Addr == g {
						n++
						if fv, ok := st.Val.(*ssa.Function); ok {
							found = fv
						}
					}
				}
			}
			for _, a := range f.AnonFuncs {
				visit(a)
			}
		}
		visit(fn)
	}
	if n != 1 {
		found = nil
	}
	vc.funcGlobals[g] = found
	return found
}

func (fr *Frame) store(addr ssa.Value, v Val, pos token.Pos) {
	vc := fr.vc
	et := vc.rt(addr.Type()).Underlying().(*types.Pointer).Elem()
	if ia, ok := fr.arrayProv(addr); ok {
		arr := fr.load(ia.X, pos)
		at := vc.rt(ia.X.Type()).Underlying().(*types.Pointer).Elem()
		narr := fr.arraySet(arr, at, fr.term(ia.Index), ia.Index.Type(), v.T)
		fr.store(ia.X, Val{T: narr}, pos)
		return
	}
	if fa, ok := addr.(*ssa.FieldAddr); ok {
		st := vc.rt(fa.X.Type()).Underlying().(*types.Pointer).Elem()
		vc.storeField(fr.st, fr.term(fa.X), st, fa.Field, v.T)
		return
	}
	p := fr.term(addr)
	fr.checkNonNil(addr, p, pos)
	vc.storeAt(fr.st, p, et, v.T)
}

func (fr *Frame) idx64(i Term, t types.Type) Term {
	w := bvWidth(i.Sort)
	if w == 64 {
		return i
	}
	if isSigned(fr.vc.rt(t)) {
		return Term{fmt.Sprintf("((_ sign_extend %d) %s)", 64-w, i.S), bvSort(64)}
	}
	return Term{fmt.Sprintf("((_ zero_extend %d) %s)", 64-w, i.S), bvSort(64)}
}

func (fr *Frame) arrayGet(arr Term, at types.Type, idx Term, it types.Type) Term {
	si := fr.vc.structInfo(at)
	i := fr.idx64(idx, it)
	n := len(si.Fields)
	// constant index: select the element directly
	for k := 0; k < n; k++ {
		if i.S == bvLit(uint64(k), 64).S {
			return si.get(arr, k)
		}
	}
	r := si.get(arr, n-1)
	for k := n - 2; k >= 0; k-- {
		r = ite(eq(i, bvLit(uint64(k), 64)), si.get(arr, k), r)
	}
	return r
}

func (fr *Frame) arraySet(arr Term, at types.Type, idx Term, it types.Type, v Term) Term {
	si := fr.vc.structInfo(at)
	i := fr.idx64(idx, it)
	var fs []Term
	for k := range si.Fields {
		switch {
		case i.S == bvLit(uint64(k), 64).S:
			fs = append(fs, v)
		case len(i.S) > 5 && (i.S[:5] == "(_ bv" || i.S[:2] == "#x"):
			fs = append(fs, si.get(arr, k))
		default:
			fs = append(fs, ite(eq(i, bvLit(uint64(k), 64)), v, si.get(arr, k)))
		}
	}
	return si.mk(fs)
}

func (fr *Frame) indexAddr(t *ssa.IndexAddr) {
	vc := fr.vc
	xt := vc.rt(t.X.Type())
	if xv := fr.val(t.X); xv.Cell != nil {
		if pt, ok := xt.Underlying().(*types.Pointer); ok {
			arr := pt.Elem().Underlying().(*types.Array)
			i := fr.idx64(fr.term(t.Index), t.Index.Type())
			fr.check("bounds", indexDesc(t.X, t.Index), app(SBool, "bvult", i, bvLit(uint64(arr.Len()), 64)), t.Pos())
			it := fr.term(t.Index)
			fr.vals[t] = Val{T: tNil, Cell: xv.Cell.extend(cellStep{idx: &it, idxT: t.Index.Type(), cont: pt.Elem()})}
			return
		}
	}
	i := fr.idx64(fr.term(t.Index), t.Index.Type())
	switch u := xt.Underlying().(type) {
	case *types.Slice:
		s := fr.term(t.X)
		fr.check("bounds", indexDesc(t.X, t.Index), app(SBool, "bvult", i, slen(s)), t.Pos())
		fr.vals[t] = Val{T: vc.name(t.Name(), elemPtr(sptr(s), i))}
		fr.markNonNil(fr.vals[t].T)
	case *types.Pointer:
		arr := u.Elem().Underlying().(*types.Array)
		fr.check("bounds", indexDesc(t.X, t.Index), app(SBool, "bvult", i, bvLit(uint64(arr.Len()), 64)), t.Pos())
		// pointer value is symbolic only; loads/stores use provenance
		fr.vals[t] = Val{T: Term{fmt.Sprintf("(mkptr (alloc %s) (PE (path %s) %s))", fr.term(t.X).S, fr.term(t.X).S, i.S), SPtr}}
	default:
		unsup("IndexAddr on %s", xt)
	}
}

func indexDesc(x, i ssa.Value) string {
	return fmt.Sprintf("%s[%s]", x.Name(), i.Name())
}

func (fr *Frame) index(t *ssa.Index) {
	vc := fr.vc
	xt := vc.rt(t.X.Type())
	switch u := xt.Underlying().(type) {
	case *types.Array:
		i := fr.idx64(fr.term(t.Index), t.Index.Type())
		fr.check("bounds", indexDesc(t.X, t.Index), app(SBool, "bvult", i, bvLit(uint64(u.Len()), 64)), t.Pos())
		fr.set(t, fr.arrayGet(fr.term(t.X), xt, fr.term(t.Index), t.Index.Type()))
	default:
		unsup("Index on %s", xt)
	}
}

func (fr *Frame) slice(t *ssa.Slice) {
	vc := fr.vc
	xt := vc.rt(t.X.Type())
	get := func(v ssa.Value, def Term) Term {
		if v == nil {
			return def
		}
		return fr.idx64(fr.term(v), v.Type())
	}
	switch u := xt.Underlying().(type) {
	case *types.Slice:
		s := fr.term(t.X)
		lo := get(t.Low, bvLit(0, 64))
		hi := get(t.High, slen(s))
		mx := get(t.Max, scap(s))
		fr.check("slice", t.X.Name(), and(app(SBool, "bvule", lo, hi), app(SBool, "bvule", hi, mx), app(SBool, "bvule", mx, scap(s))), t.Pos())
		r := mkSlice(elemPtr(sptr(s), lo), app(bvSort(64), "bvsub", hi, lo), app(bvSort(64), "bvsub", mx, lo))
		// Go: slicing a nil slice yields nil; elemPtr of nil stays alloc 0
		fr.vals[t] = Val{T: vc.name(t.Name(), r)}
	case *types.Pointer:
		arr, ok := u.Elem().Underlying().(*types.Array)
		if !ok {
			unsup("slice of %s", xt)
		}
		if al, ok := t.X.(*ssa.Alloc); ok && al.Comment == "makeslice" {
			n := bvLit(uint64(arr.Len()), 64)
			hi := n
			if t.High != nil {
				hi = fr.idx64(fr.term(t.High), t.High.Type())
			}
			if t.Low != nil {
				unsup("makeslice with low bound")
			}
			p := vc.newAllocSlice(fr.st, arr.Elem())
			vc.markFresh(arr.Elem())
			fr.vals[t] = Val{T: mkSlice(p, hi, n)}
			return
		}
		// materialise the array as a fresh heap slice (used for varargs)
		var av Term
		if xv := fr.val(t.X); xv.Cell != nil {
			av = fr.cellGet(xv.Cell).T
		} else {
			av = fr.load(t.X, t.Pos())
		}
		si := vc.structInfo(u.Elem())
		n := arr.Len()
		if t.Low != nil || t.High != nil || t.Max != nil {
			unsup("partial slice of array")
		}
		p := vc.newAllocSlice(fr.st, arr.Elem())
		vc.markFresh(arr.Elem())
		for k := int64(0); k < n; k++ {
			vc.storeAt(fr.st, elemPtr(p, bvLit(uint64(k), 64)), arr.Elem(), si.get(av, int(k)))
		}
		fr.vals[t] = Val{T: mkSlice(p, bvLit(uint64(n), 64), bvLit(uint64(n), 64))}
	case *types.Basic:
		unsup("string slicing")
	default:
		unsup("slice of %s", xt)
	}
}

func (fr *Frame) makeSlice(t *ssa.MakeSlice) {
	vc := fr.vc
	l := fr.idx64(fr.term(t.Len), t.Len.Type())
	c := fr.idx64(fr.term(t.Cap), t.Cap.Type())
	// makeslice panics for negative or len > cap
	fr.check("makeslice", t.Name(), and(app(SBool, "bvule", l, c), app(SBool, "bvule", c, Term{"#x0000010000000000", bvSort(64)})), t.Pos())
	p := vc.newAllocSlice(fr.st, t.Type().Underlying().(*types.Slice).Elem())
	vc.markFresh(t.Type().Underlying().(*types.Slice).Elem())
	fr.vals[t] = Val{T: vc.name(t.Name(), mkSlice(p, l, c))}
}

func (fr *Frame) mapUpdate(t *ssa.MapUpdate) {
	vc := fr.vc
	mt := vc.rt(t.Map.Type()).Underlying().(*types.Map)
	m := fr.term(t.Map)
	fr.check("nilmap", t.Map.Name(), not(isNil(m)), t.Pos())
	has, val, ln, ks, vs := vc.mapHeaps(mt)
	k, v := fr.term(t.Key), fr.term(t.Value)
	if fr.val(t.Map).Ghost {
		valArr := vc.heapRead(fr.st, val, m)
		vc.heapWrite(fr.st, val, m, store(Term{valArr.S, arraySort(ks, vs)}, k, v))
		return
	}
	hasArr := vc.heapRead(fr.st, has, m)
	valArr := vc.heapRead(fr.st, val, m)
	was := sel(hasArr, k, SBool)
	l := vc.heapRead(fr.st, ln, m)
	vc.heapWrite(fr.st, ln, m, ite(was, l, app(bvSort(64), "bvadd", l, bvLit(1, 64))))
	vc.heapWrite(fr.st, has, m, store(Term{hasArr.S, arraySort(ks, SBool)}, k, tTrue))
	vc.heapWrite(fr.st, val, m, store(Term{valArr.S, arraySort(ks, vs)}, k, v))
}

func (fr *Frame) lookup(t *ssa.Lookup) {
	vc := fr.vc
	mt, ok := vc.rt(t.X.Type()).Underlying().(*types.Map)
	if !ok {
		unsup("string index")
	}
	m := fr.term(t.X)
	has, val, _, _, vs := vc.mapHeaps(mt)
	k := fr.term(t.Index)
	hasArr := vc.heapRead(fr.st, has, m)
	valArr := vc.heapRead(fr.st, val, m)
	present := and(not(isNil(m)), sel(hasArr, k, SBool))
	v := ite(present, sel(valArr, k, vs), vc.zeroOf(mt.Elem()))
	if fr.val(t.X).Ghost {
		present = tTrue
		v = sel(valArr, k, vs)
	}
	v = vc.name(t.Name(), v)
	if t.CommaOk {
		fr.vals[t] = Val{Tup: []Val{{T: v}, {T: present}}}
		vc.assumeWF(fr.st, v, mt.Elem())
		return
	}
	fr.vals[t] = Val{T: v}
	vc.assumeWF(fr.st, v, mt.Elem())
}

// ---- map iteration (visited-set model) ------------------------------------------------------

func (fr *Frame) rangeInit(t *ssa.Range) {
	vc := fr.vc
	mt, ok := vc.rt(t.X.Type()).Underlying().(*types.Map)
	if !ok {
		unsup("range over %s", t.X.Type())
	}
	_, _, _, ks, _ := vc.mapHeaps(mt)
	fr.mapIter[t] = &mapIterState{m: fr.term(t.X), mt: mt, visited: Term{fmt.Sprintf("((as const (Array %s Bool)) false)", ks), arraySort(ks, SBool)}}
	fr.vals[t] = Val{T: fr.term(t.X)}
}

func (fr *Frame) rangeNext(t *ssa.Next) {
	vc := fr.vc
	r, ok := t.Iter.(*ssa.Range)
	if !ok {
		unsup("next on non-range")
	}
	it := fr.mapIter[r]
	if it == nil {
		unsup("map iteration state lost")
	}
	// Map iteration: any present key may come next; "ok" is unconstrained except that a key is
	// present when ok. Visited-set tracking is left to invariants over the map itself.
	has, val, _, ks, vs := vc.mapHeaps(it.mt)
	okT := vc.freshConst("next_ok", SBool)
	k := vc.freshConst("next_key", ks)
	hasArr := vc.heapRead(fr.st, has, it.m)
	valArr := vc.heapRead(fr.st, val, it.m)
	vc.assume(implies(okT, sel(hasArr, k, SBool)))
	v := sel(valArr, k, vs)
	fr.vals[t] = Val{Tup: []Val{{T: okT}, {T: k}, {T: vc.name("next_val", v)}}}
}
