package main

// Lock-set pass (property C13). Obligation guard(access), decided on the SSA of package ecs:
// in every function that locks a sync.Mutex field of a struct, the fields of that struct which
// the function writes while holding the mutex ("guarded fields") are never read or written at a
// point where the mutex is not held. Together with "query values are owned by one goroutine"
// and "the world is not modified while queries are open" (C07) this is a sufficient condition
// for data-race freedom of the documented concurrent surface (filters shared between
// goroutines creating queries). It explores no schedules.

import (
	"fmt"
	"go/token"
	"go/types"
	"os"
	"sort"
	"strings"

	"golang.org/x/tools/go/ssa"
)

type lsAccess struct {
	field int
	name  string
	held  bool
	write bool
	pos   token.Pos
}

func isMutexType(t types.Type) bool {
	n, ok := t.(*types.Named)
	return ok && n.Obj().Name() == "Mutex" && n.Obj().Pkg() != nil && n.Obj().Pkg().Path() == "sync"
}

// locksetFunc analyses one function; returns findings as (field name, description, line).
func locksetFunc(L *Loaded, fn *ssa.Function) [][3]string {
	// mutex field addresses: FieldAddr(base, k) with field type sync.Mutex, used as receiver of Lock/Unlock
	type mref struct {
		base ssa.Value
		k    int
	}
	lockCalls := map[*ssa.Call]mref{}
	unlockCalls := map[*ssa.Call]mref{}
	for _, b := range fn.Blocks {
		for _, ins := range b.Instrs {
			c, ok := ins.(*ssa.Call)
			if !ok {
				continue
			}
			f, ok := c.Common().Value.(*ssa.Function)
			if !ok || f.Pkg == nil || f.Pkg.Pkg.Path() != "sync" {
				continue
			}
			if len(c.Common().Args) == 0 {
				continue
			}
			fa, ok := c.Common().Args[0].(*ssa.FieldAddr)
			if !ok {
				continue
			}
			switch f.Name() {
			case "Lock":
				lockCalls[c] = mref{fa.X, fa.Field}
			case "Unlock":
				unlockCalls[c] = mref{fa.X, fa.Field}
			}
		}
	}
	if len(lockCalls) == 0 {
		return nil
	}
	var base ssa.Value
	for _, m := range lockCalls {
		base = m.base
	}
	// explore with the held flag
	var accesses []lsAccess
	type st struct {
		b    *ssa.BasicBlock
		held bool
	}
	seen := map[string]bool{}
	work := []st{{fn.Blocks[0], false}}
	structT, _ := base.Type().Underlying().(*types.Pointer)
	var sT *types.Struct
	if structT != nil {
		sT, _ = structT.Elem().Underlying().(*types.Struct)
	}
	for len(work) > 0 {
		w := work[len(work)-1]
		work = work[:len(work)-1]
		k := fmt.Sprintf("%d/%v", w.b.Index, w.held)
		if seen[k] {
			continue
		}
		seen[k] = true
		held := w.held
		for _, ins := range w.b.Instrs {
			switch t := ins.(type) {
			case *ssa.Call:
				if _, ok := lockCalls[t]; ok {
					held = true
				}
				if _, ok := unlockCalls[t]; ok {
					held = false
				}
			case *ssa.Store:
				if fa, ok := t.Addr.(*ssa.FieldAddr); ok && fa.X == base && sT != nil {
					accesses = append(accesses, lsAccess{fa.Field, sT.Field(fa.Field).Name(), held, true, t.Pos()})
				}
			case *ssa.UnOp:
				if t.Op == token.MUL {
					if fa, ok := t.X.(*ssa.FieldAddr); ok && fa.X == base && sT != nil {
						if !isMutexType(sT.Field(fa.Field).Type()) {
							accesses = append(accesses, lsAccess{fa.Field, sT.Field(fa.Field).Name(), held, false, t.Pos()})
						}
					}
				}
			}
		}
		for _, succ := range w.b.Succs {
			work = append(work, st{succ, held})
		}
	}
	guarded := map[int]bool{}
	for _, a := range accesses {
		if a.write && a.held {
			guarded[a.field] = true
		}
	}
	var out [][3]string
	seenF := map[string]bool{}
	for _, a := range accesses {
		if guarded[a.field] && !a.held {
			p := L.Fset.Position(a.pos)
			kind := "read"
			if a.write {
				kind = "write"
			}
			key := a.name + kind + lineText(p.Filename, p.Line)
			if seenF[key] {
				continue
			}
			seenF[key] = true
			out = append(out, [3]string{a.name, fmt.Sprintf("%s of field %s, which this function writes under the mutex, at a point where the mutex is not held", kind, a.name), lineText(p.Filename, p.Line)})
		}
	}
	return out
}

// critical sections that the documented concurrent surface relies on: every use of another field
// of the receiver (including passing its address to a callee) must happen while the mutex is held
var locksetRequired = map[string]string{"(*lock).LockSafe": "mu", "(*lock).UnlockSafe": "mu"}

func requiredSection(L *Loaded, fn *ssa.Function, mutexField string) [][3]string {
	if len(fn.Params) == 0 {
		return nil
	}
	base := fn.Params[0]
	pt, ok := base.Type().Underlying().(*types.Pointer)
	if !ok {
		return nil
	}
	sT, ok := pt.Elem().Underlying().(*types.Struct)
	if !ok {
		return nil
	}
	type st struct {
		b    *ssa.BasicBlock
		held bool
	}
	var out [][3]string
	seen := map[string]bool{}
	seenF := map[string]bool{}
	work := []st{{fn.Blocks[0], false}}
	for len(work) > 0 {
		w := work[len(work)-1]
		work = work[:len(work)-1]
		k := fmt.Sprintf("%d/%v", w.b.Index, w.held)
		if seen[k] {
			continue
		}
		seen[k] = true
		held := w.held
		for _, ins := range w.b.Instrs {
			if c, ok := ins.(*ssa.Call); ok {
				if g, ok := c.Common().Value.(*ssa.Function); ok && g.Pkg != nil && g.Pkg.Pkg.Path() == "sync" && len(c.Common().Args) > 0 {
					if fa, ok := c.Common().Args[0].(*ssa.FieldAddr); ok && fa.X == base && sT.Field(fa.Field).Name() == mutexField {
						held = g.Name() == "Lock"
						continue
					}
				}
			}
			if fa, ok := ins.(*ssa.FieldAddr); ok && fa.X == base && sT.Field(fa.Field).Name() != mutexField && !held {
				p := L.Fset.Position(fa.Pos())
				line := lineText(p.Filename, p.Line)
				if !seenF[line] {
					seenF[line] = true
					out = append(out, [3]string{sT.Field(fa.Field).Name(), "field " + sT.Field(fa.Field).Name() + " of the receiver is used while " + mutexField + " is not held", line})
				}
			}
		}
		for _, succ := range w.b.Succs {
			work = append(work, st{succ, held})
		}
	}
	return out
}

func (r *Report) runLockset(allowFile string) (int, map[string]any) {
	allow := readAllow(allowFile)
	var names []string
	for n := range r.L.Funcs {
		names = append(names, n)
	}
	sort.Strings(names)
	nFuncs, v, nKnown := 0, 0, 0
	var samples []any
	knownByID := map[string]int{}
	for _, n := range names {
		f := r.L.Funcs[n]
		if f.Synthetic != "" || len(f.Blocks) == 0 || (f.Pkg != r.L.SPkg && !(f.Origin() != nil && f.Origin().Pkg == r.L.SPkg)) {
			continue
		}
		fs := locksetFunc(r.L, f)
		if mf, ok := locksetRequired[n]; ok {
			fs = append(fs, requiredSection(r.L, f, mf)...)
		}
		hasMutex := false
		for _, b := range f.Blocks {
			for _, ins := range b.Instrs {
				if c, ok := ins.(*ssa.Call); ok {
					if g, ok := c.Common().Value.(*ssa.Function); ok && g.Pkg != nil && g.Pkg.Pkg.Path() == "sync" {
						hasMutex = true
					}
				}
			}
		}
		if hasMutex {
			nFuncs++
		}
		for _, x := range fs {
			key := n + "\tguard(" + x[0] + ")\t" + x[2]
			if why, ok := allow[key]; ok {
				nKnown++
				id := "F-9"
				if i := strings.Index(why, " "); i > 0 && strings.HasPrefix(why, "known:") {
					id = strings.TrimPrefix(why[:i], "known:")
				}
				knownByID[id]++
				if len(samples) < 6 {
					samples = append(samples, map[string]any{"function": n, "obligation": "guard(" + x[0] + ")", "status": why})
				}
				continue
			}
			if os.Getenv("ARKVC_EMIT_KNOWN") != "" {
				fmt.Printf("EMIT\t%s\t%s\n", key, os.Getenv("ARKVC_EMIT_KNOWN"))
				continue
			}
			v++
			dir := r.ReplayDir
			if dir == "" {
				dir = "replays"
			}
			os.MkdirAll(dir+"/"+r.Prop, 0o755)
			path := fmt.Sprintf("%s/%s/lockset_%x.txt", dir, r.Prop, hashStr(key))
			os.WriteFile(path, []byte(fmt.Sprintf("property: %s\nobligation: %s#guard(%s)\n%s\nat: %s\n", r.Prop, n, x[0], x[1], x[2])), 0o644)
			fmt.Printf("VIOLATION property=%s replay=%s obligation=%s#guard(%s) no-failing-input-found\n", r.Prop, path, strings.ReplaceAll(n, " ", "_"), x[0])
		}
	}
	fmt.Printf("lock-set pass: functions using a mutex=%d findings=%d known=%d\n", nFuncs, v, nKnown)
	return v, map[string]any{"lockset_functions": nFuncs, "lockset_findings": v, "lockset_known": nKnown, "lockset_samples": samples,
		"explanation": fmt.Sprintf("lock-set discipline checked on the SSA of %d functions that use a sync.Mutex: fields written under the mutex must only be accessed under it; %d unlisted findings, %d accesses covered by known finding entries. No schedules are explored.", nFuncs, v, nKnown)}
}
