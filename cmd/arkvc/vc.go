package main

import (
	"fmt"
	"go/token"
	"go/types"
	"sort"
	"strings"

	"golang.org/x/tools/go/ssa"
)

// Val is the symbolic value of an SSA value.
type Val struct {
	T     Term
	Tup   []Val
	Clo   *closureVal
	Ghost bool // a ghost (total) map
	Cell  *cellRef // address of (part of) a local variable kept outside the heap
}

// cellRef addresses a local variable (or a field/element of it) that does not escape; such
// variables live in State.cells rather than in the heaps.
type cellRef struct {
	key  int
	path []cellStep
	typ  types.Type // type of the root variable
}

type cellStep struct {
	field int
	idx   *Term      // array index (symbolic) when not nil
	idxT  types.Type // type of the index
	cont  types.Type // container type (struct or array) this step selects from
}

type closureVal struct {
	fn       *ssa.Function
	bindings []Val
}

// Obl is one proof obligation.
type Obl struct {
	Name   string
	Kind   string
	Goal   Term // must hold whenever Guard holds
	Guard  Term
	NAss   int  // number of assumptions visible
	Cover  bool // cover goal: Guard must be satisfiable
	Group  string // cover goals of one return statement executed once per incoming edge: one reachable copy suffices
	Pos    token.Position
	Extra  []string // extra declarations local to this obligation
	Tags   []string
	Detail string
	Deps   []string // obligations (or "@loop:<L>" groups) whose goals were assumed before this one was generated
}

type Exit struct {
	Cond Term
	St   *State
	Res  []Val
	What string // for exceptional exits: description
	Pos  token.Pos
	NAss int // assumptions visible when the exit was reached (exceptional exits)
}

type unsupported struct{ msg string }

func unsup(format string, a ...any) { panic(unsupported{fmt.Sprintf(format, a...)}) }

// VC accumulates the verification condition of one function under proof.
type VC struct {
	nonNil map[string]bool // terms that are results of checked address computations
	epochEq map[int][]string // epoch -> Boolean constants under which every heap of the epoch equals the entry heap
	L         *Loaded
	S         *Sorts
	Top       *ssa.Function
	decls     []string
	declared  map[string]string
	asserts   []string
	obls      []*Obl
	xexits    []Exit
	nfresh    int
	heapSort  map[string]string
	qdepth    int
	depth     int
	spec      int // >0: spec evaluation (no obligations, no exceptional exits)
	assumed   map[string]bool
	rootBound map[string]Term // root heap const -> nalloc bound at creation
	rootAxiom map[string]bool
	zeroBySort map[string]Term
	tsubst    map[*types.TypeParam]types.Type
	callStack []*ssa.Function
	nepoch    int
	ghostIdx  map[string]int
	trace     []string // notes
	globalIdx map[string]int
	timeouts  int
	assertSeen map[string]bool
	assSyms    map[int]map[string]bool
	assDef     map[int]string
	deps       []string
	oblNames   map[string]int
	tags       map[string]int
	trigStack  [][]string
	ncell      int
	freshHeaps map[string]bool // heaps that may hold memory allocated by the function under proof
	funcGlobals map[*ssa.Global]*ssa.Function
	modCapture *[]modCapture
	modCache   map[*ssa.Function]*modInfo
}

type State struct {
	heaps  map[string]Term
	roots  map[string][]string
	cells  map[int]Val
	epoch  int
	nalloc Term
}

func (st *State) clone() *State {
	n := &State{heaps: make(map[string]Term, len(st.heaps)), roots: make(map[string][]string, len(st.roots)), cells: make(map[int]Val, len(st.cells)), epoch: st.epoch, nalloc: st.nalloc}
	for k, v := range st.cells {
		n.cells[k] = v
	}
	for k, v := range st.heaps {
		n.heaps[k] = v
	}
	for k, v := range st.roots {
		n.roots[k] = v
	}
	return n
}

func newVC(L *Loaded, top *ssa.Function) *VC {
	vc := &VC{L: L, Top: top, declared: map[string]string{}, heapSort: map[string]string{}, assumed: map[string]bool{},
		rootBound: map[string]Term{}, rootAxiom: map[string]bool{}, zeroBySort: map[string]Term{}, ghostIdx: map[string]int{}, globalIdx: map[string]int{}}
	pkg := L.SPkg.Pkg
	vc.S = newSorts(func(p *types.Package) string {
		if p == pkg {
			return ""
		}
		// internal/sync.Mutex and sync.Mutex must not share a name
		if strings.HasPrefix(p.Path(), "internal/") {
			return strings.ReplaceAll(p.Path(), "/", "_")
		}
		return p.Name()
	})
	return vc
}

func (vc *VC) fresh(prefix string) string {
	vc.nfresh++
	return fmt.Sprintf("%s!%d", sanitize(prefix), vc.nfresh)
}

func (vc *VC) declare(name, sort string) Term {
	if s, ok := vc.declared[name]; ok {
		if s != sort {
			panic(fmt.Sprintf("redeclaration of %s: %s vs %s", name, s, sort))
		}
		return Term{name, sort}
	}
	vc.declared[name] = sort
	vc.decls = append(vc.decls, fmt.Sprintf("(declare-const %s %s)", name, sort))
	return Term{name, sort}
}

func (vc *VC) freshConst(prefix, sort string) Term {
	return vc.declare(vc.fresh(prefix), sort)
}

func (vc *VC) assume(t Term) {
	if t.S == "true" {
		return
	}
	if vc.qdepth > 0 {
		return // assumptions inside quantifier bodies are dropped (only type facts)
	}
	if vc.assertSeen == nil {
		vc.assertSeen = map[string]bool{}
	}
	// conjunctions are split so that relevance slicing can drop the irrelevant conjuncts;
	// guarded conjunctions (=> g (and ...)) are split as well
	guard := ""
	body := t
	if strings.HasPrefix(t.S, "(=> ") {
		if parts := splitArgs(t.S); len(parts) == 3 && strings.HasPrefix(parts[2], "(and ") {
			guard, body = parts[1], Term{parts[2], SBool}
		}
	}
	for _, c := range splitConj(body) {
		s := c.S
		if guard != "" {
			s = "(=> " + guard + " " + s + ")"
		}
		if vc.assertSeen[s] {
			continue
		}
		vc.assertSeen[s] = true
		vc.asserts = append(vc.asserts, s)
	}
}

// name gives a large term a name to keep the VC linear in size.
func (vc *VC) name(prefix string, t Term) Term {
	if vc.qdepth > 0 || vc.spec > 0 || len(t.S) < 80 {
		return t
	}
	c := vc.freshConst(prefix, t.Sort)
	vc.asserts = append(vc.asserts, fmt.Sprintf("(= %s %s)", c.S, t.S))
	return c
}

func (vc *VC) oblige(kind, name string, guard, goal Term, pos token.Pos) {
	if vc.spec > 0 {
		return
	}
	if vc.qdepth > 0 {
		unsup("obligation inside quantifier")
	}
	if vc.oblNames == nil {
		vc.oblNames = map[string]int{}
	}
	vc.oblNames[name]++
	if n := vc.oblNames[name]; n > 1 {
		name = fmt.Sprintf("%s #%d", name, n)
	}
	o := &Obl{Name: name, Kind: kind, Goal: goal, Guard: guard, NAss: len(vc.asserts), Deps: append([]string{}, vc.deps...)}
	if pos.IsValid() {
		o.Pos = vc.L.Fset.Position(pos)
	}
	vc.obls = append(vc.obls, o)
}

// ---- types --------------------------------------------------------------------------------------

func (vc *VC) rt(t types.Type) types.Type {
	if vc.tsubst == nil {
		return t
	}
	return substType(t, vc.tsubst)
}

func substType(t types.Type, m map[*types.TypeParam]types.Type) types.Type {
	switch u := t.(type) {
	case *types.TypeParam:
		if r, ok := m[u]; ok {
			return r
		}
		// match by name (different TypeParam objects for receiver type params of methods)
		for k, v := range m {
			if k.Obj().Name() == u.Obj().Name() {
				return v
			}
		}
		return t
	case *types.Pointer:
		return types.NewPointer(substType(u.Elem(), m))
	case *types.Slice:
		return types.NewSlice(substType(u.Elem(), m))
	case *types.Array:
		return types.NewArray(substType(u.Elem(), m), u.Len())
	case *types.Map:
		return types.NewMap(substType(u.Key(), m), substType(u.Elem(), m))
	}
	return t
}

func (vc *VC) sortOf(t types.Type) string {
	vc.S.tsubst = vc.tsubst
	s, err := vc.S.sortOf(vc.rt(t))
	if err != nil {
		unsup("%v", err)
	}
	return s
}

func (vc *VC) zeroOf(t types.Type) Term {
	vc.S.tsubst = vc.tsubst
	z, err := vc.S.zeroOf(vc.rt(t))
	if err != nil {
		unsup("%v", err)
	}
	vc.zeroBySort[z.Sort] = z
	return z
}

func (vc *VC) zeroOfSort(srt string) Term {
	if z, ok := vc.zeroBySort[srt]; ok {
		return z
	}
	if k, v := arrayParts(srt); k != "" {
		ze := vc.zeroOfSort(v)
		return Term{fmt.Sprintf("((as const %s) %s)", srt, ze.S), srt}
	}
	z, err := vc.S.zeroOfSort(srt, nil)
	if err != nil {
		// a datatype sort: build the zero value from the zeros of its field sorts
		for _, si := range vc.S.structs {
			if si.Sort == srt {
				var fs []Term
				for _, f := range si.FSorts {
					fs = append(fs, vc.zeroOfSort(f))
				}
				z := si.mk(fs)
				vc.zeroBySort[srt] = z
				return z
			}
		}
		unsup("%v", err)
	}
	return z
}

func (vc *VC) structInfo(t types.Type) *structInfo {
	vc.S.tsubst = vc.tsubst
	si, err := vc.S.structInfoOf(vc.rt(t))
	if err != nil {
		unsup("%v", err)
	}
	return si
}

func typeName(t types.Type, q types.Qualifier) string {
	t = types.Unalias(t)
	if b, ok := t.(*types.Basic); ok {
		switch b.Kind() {
		case types.Uint8:
			return "uint8"
		case types.Int32:
			return "int32"
		}
	}
	return sanitize(types.TypeString(t, q))
}

// ---- heaps --------------------------------------------------------------------------------------

func (vc *VC) heapDecl(name, valSort string) {
	s := arraySort(SPtr, valSort)
	if old, ok := vc.heapSort[name]; ok {
		if old != s {
			panic(fmt.Sprintf("heap %s sort conflict %s vs %s", name, old, s))
		}
		return
	}
	vc.heapSort[name] = s
}

func (vc *VC) preHeap(name string, epoch int) Term {
	s, ok := vc.heapSort[name]
	if !ok {
		panic("undeclared heap " + name)
	}
	n := fmt.Sprintf("%s!e%d", name, epoch)
	if _, ok := vc.declared[n]; !ok {
		vc.declare(n, s)
		// "__unchanged()" facts of this epoch: under each registered condition the heap equals the
		// entry heap
		if epoch != 0 {
			for _, u := range vc.epochEq[epoch] {
				vc.asserts = append(vc.asserts, fmt.Sprintf("(=> %s (= %s %s))", u, n, vc.preHeap(name, 0).S))
			}
		}
	}
	return Term{n, s}
}

func (vc *VC) heapGet(st *State, name string) Term {
	if t, ok := st.heaps[name]; ok {
		return t
	}
	return vc.preHeap(name, st.epoch)
}

func (vc *VC) heapRoots(st *State, name string) []string {
	if r, ok := st.roots[name]; ok {
		return r
	}
	return []string{vc.preHeap(name, st.epoch).S}
}

func (vc *VC) heapSet(st *State, name string, t Term) {
	if _, ok := st.roots[name]; !ok {
		st.roots[name] = []string{vc.preHeap(name, st.epoch).S}
	}
	st.heaps[name] = vc.name(name, t)
}

// havocHeap replaces a heap by a fresh root.
func (vc *VC) havocHeap(st *State, name string) Term {
	s := vc.heapSort[name]
	c := vc.freshConst(name, s)
	st.heaps[name] = c
	st.roots[name] = []string{c.S}
	vc.rootBound[c.S] = st.nalloc
	return c
}

func (vc *VC) havocAll(st *State) {
	vc.nepoch++
	st.heaps = map[string]Term{}
	st.roots = map[string][]string{}
	st.epoch = vc.nepoch
	n := vc.freshConst("nalloc", SInt)
	vc.assume(app(SBool, "<=", st.nalloc, n))
	st.nalloc = n
	vc.rootBound[fmt.Sprintf("!e%d", st.epoch)] = n
}

func (vc *VC) boundOfRoot(root string) (Term, bool) {
	if b, ok := vc.rootBound[root]; ok {
		return b, true
	}
	if i := strings.LastIndex(root, "!e"); i >= 0 {
		if b, ok := vc.rootBound[root[i:]]; ok {
			return b, true
		}
	}
	return Term{}, false
}

// heapRead reads a heap cell and supplies the "fresh memory is zero" fact where it can matter.
func (vc *VC) heapRead(st *State, name string, key Term) Term {
	h := vc.heapGet(st, name)
	_, vs := arrayParts(h.Sort)
	if vc.spec == 0 || true {
		for _, r := range vc.heapRoots(st, name) {
			b, ok := vc.boundOfRoot(r)
			if !ok || b.S == st.nalloc.S || !vc.freshHeaps[name] {
				continue
			}
			z := vc.zeroOfSort(vs)
			if vc.qdepth > 0 {
				if !vc.rootAxiom[r] {
					vc.rootAxiom[r] = true
					vc.asserts = append(vc.asserts, fmt.Sprintf("(forall ((q Ptr)) (! (=> (> (alloc q) %s) (= (select %s q) %s)) :pattern ((select %s q))))", b.S, r, z.S, r))
				}
			} else {
				vc.assume(Term{fmt.Sprintf("(=> (> (alloc %s) %s) (= (select %s %s) %s))", key.S, b.S, r, key.S, z.S), SBool})
			}
		}
	}
	// pointers stored in a root heap existed when that root was created: they are older than
	// anything allocated afterwards (separation of pre-existing objects from fresh allocations)
	if vs == SPtr || vs == SSlice {
		for _, r := range vc.heapRoots(st, name) {
			b, ok := vc.boundOfRoot(r)
			if !ok || b.S == st.nalloc.S {
				continue
			}
			acc := "(alloc (select %s %s))"
			if vs == SSlice {
				acc = "(alloc (sptr (select %s %s)))"
			}
			if vc.qdepth > 0 {
				if !vc.rootAxiom["old:"+r] {
					vc.rootAxiom["old:"+r] = true
					vc.asserts = append(vc.asserts, fmt.Sprintf("(forall ((q Ptr)) (! (<= "+acc+" %s) :pattern ((select %s q))))", r, "q", b.S, r))
				}
			} else {
				vc.assume(Term{fmt.Sprintf("(<= "+acc+" %s)", r, key.S, b.S), SBool})
			}
		}
	}
	return sel(h, key, vs)
}

func (vc *VC) heapWrite(st *State, name string, key, v Term) {
	h := vc.heapGet(st, name)
	vc.heapSet(st, name, store(h, key, v))
}

// mergeStates merges states along mutually exclusive conditions.
func (vc *VC) mergeStates(conds []Term, sts []*State) *State {
	if len(sts) == 1 {
		return sts[0].clone()
	}
	out := &State{heaps: map[string]Term{}, roots: map[string][]string{}, cells: map[int]Val{}, epoch: sts[0].epoch}
	ckeys := map[int]bool{}
	for _, s := range sts {
		for k := range s.cells {
			ckeys[k] = true
		}
	}
	var cks []int
	for k := range ckeys {
		cks = append(cks, k)
	}
	sort.Ints(cks)
	for _, k := range cks {
		var vs []Val
		var cs []Term
		for i, s := range sts {
			if v, ok := s.cells[k]; ok {
				vs = append(vs, v)
				cs = append(cs, conds[i])
			}
		}
		v := vc.mergeVals(cs, vs)
		if v.Tup == nil && v.Clo == nil {
			v.T = vc.name("cell", v.T)
		}
		out.cells[k] = v
	}
	sameEpoch := true
	for _, s := range sts {
		if s.epoch != out.epoch {
			sameEpoch = false
		}
	}
	names := map[string]bool{}
	for _, s := range sts {
		for k := range s.heaps {
			names[k] = true
		}
	}
	if !sameEpoch {
		for k := range vc.heapSort {
			names[k] = true
		}
	}
	var ks []string
	for k := range names {
		ks = append(ks, k)
	}
	sort.Strings(ks)
	for _, k := range ks {
		t := vc.heapGet(sts[len(sts)-1], k)
		same := true
		for i := len(sts) - 2; i >= 0; i-- {
			ti := vc.heapGet(sts[i], k)
			if ti.S != t.S {
				same = false
			}
			t = ite(conds[i], ti, t)
		}
		if same && sameEpoch {
			if v, ok := sts[0].heaps[k]; ok {
				out.heaps[k] = v
				out.roots[k] = sts[0].roots[k]
			}
			continue
		}
		out.heaps[k] = vc.name(k, t)
		rs := map[string]bool{}
		for _, s := range sts {
			for _, r := range vc.heapRoots(s, k) {
				rs[r] = true
			}
		}
		var rl []string
		for r := range rs {
			rl = append(rl, r)
		}
		sort.Strings(rl)
		out.roots[k] = rl
	}
	n := sts[len(sts)-1].nalloc
	for i := len(sts) - 2; i >= 0; i-- {
		n = ite(conds[i], sts[i].nalloc, n)
	}
	out.nalloc = vc.name("nalloc", n)
	return out
}

// newAlloc returns a fresh allocation base pointer.
// markFresh records that memory of type t was allocated: reads of its heaps may hit fresh cells.
func (vc *VC) markFresh(t types.Type) {
	if vc.freshHeaps == nil {
		vc.freshHeaps = map[string]bool{}
	}
	hs := map[string]bool{}
	vc.heapsOfType(t, hs)
	for h := range hs {
		vc.freshHeaps[h] = true
	}
}

// typeTag numbers element types: the backing array of a slice of T has the path root (PT tag(T)),
// so that elements of slices of different element types can never alias.
func (vc *VC) typeTag(t types.Type) int {
	if vc.tags == nil {
		vc.tags = map[string]int{}
	}
	k := typeName(vc.rt(t), vc.S.qual)
	if n, ok := vc.tags[k]; ok {
		return n
	}
	n := len(vc.tags) + 1
	vc.tags[k] = n
	return n
}

func (vc *VC) newAllocSlice(st *State, elem types.Type) Term {
	p := vc.newAlloc(st, false)
	n := st.nalloc
	_ = p
	return Term{fmt.Sprintf("(mkptr %s (PE (PT %d) (_ bv0 64)))", n.S, vc.typeTag(elem)), SPtr}
}

func (vc *VC) newAlloc(st *State, slice bool) Term {
	n := app(SInt, "+", st.nalloc, Term{"1", SInt})
	if vc.qdepth == 0 {
		c := vc.freshConst("nalloc", SInt)
		vc.asserts = append(vc.asserts, fmt.Sprintf("(= %s %s)", c.S, n.S))
		n = c
	}
	st.nalloc = n
	if slice {
		return Term{fmt.Sprintf("(mkptr %s (PE PNil (_ bv0 64)))", n.S), SPtr}
	}
	return Term{fmt.Sprintf("(mkptr %s PNil)", n.S), SPtr}
}

func fieldPtr(p Term, i int) Term {
	return Term{fmt.Sprintf("(fieldptr %s %d)", p.S, i), SPtr}
}

func elemPtr(p Term, i Term) Term {
	if i.S == "(_ bv0 64)" {
		return p
	}
	return Term{fmt.Sprintf("(elemptr %s %s)", p.S, i.S), SPtr}
}

func sptr(s Term) Term { return selField(s, "sptr", SPtr) }
func slen(s Term) Term { return selField(s, "slen", bvSort(64)) }
func scap(s Term) Term { return selField(s, "scap", bvSort(64)) }

func selField(s Term, f string, sort string) Term {
	if strings.HasPrefix(s.S, "(mkslice ") {
		parts := splitArgs(s.S)
		if len(parts) == 4 {
			switch f {
			case "sptr":
				return Term{parts[1], sort}
			case "slen":
				return Term{parts[2], sort}
			case "scap":
				return Term{parts[3], sort}
			}
		}
	}
	return app(sort, f, s)
}

func mkSlice(p, l, c Term) Term { return app(SSlice, "mkslice", p, l, c) }

func isNil(p Term) Term {
	return Term{fmt.Sprintf("(= (alloc %s) 0)", p.S), SBool}
}

// ---- typed load/store ---------------------------------------------------------------------------

func (vc *VC) heapNameField(st types.Type, i int) string {
	s := vc.rt(st)
	named := typeName(s, vc.S.qual)
	u := s.Underlying().(*types.Struct)
	return "H_" + named + "_" + sanitize(u.Field(i).Name())
}

func (vc *VC) heapNameElem(t types.Type) string {
	return "E_" + typeName(vc.rt(t), vc.S.qual)
}

func isStruct(t types.Type) bool {
	_, ok := types.Unalias(t).Underlying().(*types.Struct)
	return ok
}

// loadAt loads a value of type t stored at pointer p. For struct types the fields are gathered
// from the per-field heaps; other types are read from the element heap of their type.
func (vc *VC) loadAt(st *State, p Term, t types.Type) Term {
	t = vc.rt(t)
	if u, ok := types.Unalias(t).Underlying().(*types.Struct); ok {
		si := vc.structInfo(t)
		var fs []Term
		for i := 0; i < u.NumFields(); i++ {
			fs = append(fs, vc.loadField(st, p, t, i))
		}
		return si.mk(fs)
	}
	h := vc.heapNameElem(t)
	vc.heapDecl(h, vc.sortOf(t))
	return vc.heapRead(st, h, p)
}

func (vc *VC) loadField(st *State, p Term, structT types.Type, i int) Term {
	structT = vc.rt(structT)
	u := types.Unalias(structT).Underlying().(*types.Struct)
	ft := u.Field(i).Type()
	if isStruct(vc.rt(ft)) {
		return vc.loadAt(st, fieldPtr(p, i), ft)
	}
	h := vc.heapNameField(structT, i)
	vc.heapDecl(h, vc.sortOf(ft))
	return vc.heapRead(st, h, p)
}

func (vc *VC) storeAt(st *State, p Term, t types.Type, v Term) {
	t = vc.rt(t)
	if u, ok := types.Unalias(t).Underlying().(*types.Struct); ok {
		si := vc.structInfo(t)
		for i := 0; i < u.NumFields(); i++ {
			vc.storeField(st, p, t, i, si.get(v, i))
		}
		return
	}
	h := vc.heapNameElem(t)
	vc.heapDecl(h, vc.sortOf(t))
	vc.heapWrite(st, h, p, v)
}

func (vc *VC) storeField(st *State, p Term, structT types.Type, i int, v Term) {
	structT = vc.rt(structT)
	u := types.Unalias(structT).Underlying().(*types.Struct)
	ft := u.Field(i).Type()
	if isStruct(vc.rt(ft)) {
		vc.storeAt(st, fieldPtr(p, i), ft, v)
		return
	}
	h := vc.heapNameField(structT, i)
	vc.heapDecl(h, vc.sortOf(ft))
	vc.heapWrite(st, h, p, v)
}

// heapsOfType lists the heaps a store of a value of type t at an address may touch.
func (vc *VC) heapsOfType(t types.Type, out map[string]bool) {
	t = vc.rt(t)
	if u, ok := types.Unalias(t).Underlying().(*types.Struct); ok {
		for i := 0; i < u.NumFields(); i++ {
			ft := u.Field(i).Type()
			if isStruct(vc.rt(ft)) {
				vc.heapsOfType(ft, out)
			} else {
				h := vc.heapNameField(t, i)
				vc.heapDecl(h, vc.sortOf(ft))
				out[h] = true
			}
		}
		return
	}
	h := vc.heapNameElem(t)
	vc.heapDecl(h, vc.sortOf(t))
	out[h] = true
}

// map heaps
func (vc *VC) mapHeaps(mt *types.Map) (has, val, ln string, ks, vs string) {
	key := typeName(vc.rt(mt.Key()), vc.S.qual) + "_" + typeName(vc.rt(mt.Elem()), vc.S.qual)
	ks, vs = vc.sortOf(mt.Key()), vc.sortOf(mt.Elem())
	has, val, ln = "MH_"+key, "MV_"+key, "ML_"+key
	vc.heapDecl(has, arraySort(ks, SBool))
	vc.heapDecl(val, arraySort(ks, vs))
	vc.heapDecl(ln, bvSort(64))
	return
}

// assumeWF adds the type invariant of a value obtained from the state.
func (vc *VC) assumeWF(st *State, v Term, t types.Type) {
	if vc.qdepth > 0 {
		return
	}
	switch v.Sort {
	case SSlice:
		tagc := "true"
		if t != nil {
			if sl, ok := vc.rt(t).Underlying().(*types.Slice); ok {
				tagc = fmt.Sprintf("(= (pe_p (path (sptr %s))) (PT %d))", v.S, vc.typeTag(sl.Elem()))
			}
		}
		vc.assume(Term{fmt.Sprintf("(and (bvule (slen %[1]s) (scap %[1]s)) (bvule (scap %[1]s) #x0000010000000000) (<= (alloc (sptr %[1]s)) %[2]s) (>= (alloc (sptr %[1]s)) 0) (=> (= (alloc (sptr %[1]s)) 0) (= %[1]s nilslice)) (=> (> (alloc (sptr %[1]s)) 0) (and ((_ is PE) (path (sptr %[1]s))) %[3]s)))", v.S, st.nalloc.S, tagc), SBool})
	case SPtr:
		vc.assume(Term{fmt.Sprintf("(and (<= (alloc %[1]s) %[2]s) (=> (= (alloc %[1]s) 0) (= %[1]s nilptr)))", v.S, st.nalloc.S), SBool})
	}
}
