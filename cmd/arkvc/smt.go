package main

import (
	"fmt"
	"go/types"
	"sort"
	"strings"
)

// Term is an SMT-LIB term as text with its sort.
type Term struct {
	S    string
	Sort string
}

func (t Term) String() string { return t.S }

const (
	SBool  = "Bool"
	SPtr   = "Ptr"
	SSlice = "Slice"
	SInt   = "Int"
	SStr   = "Str"
	SIface = "Iface"
	SFunc  = "Func"
	SCell  = "Cell"
)

func bvSort(n int) string { return fmt.Sprintf("(_ BitVec %d)", n) }

func bvWidth(sort string) int {
	var n int
	if _, err := fmt.Sscanf(sort, "(_ BitVec %d)", &n); err == nil {
		return n
	}
	return 0
}

func bvLit(v uint64, w int) Term {
	if w < 64 {
		v &= (uint64(1) << uint(w)) - 1
	}
	return Term{fmt.Sprintf("(_ bv%d %d)", v, w), bvSort(w)}
}

var (
	tTrue  = Term{"true", SBool}
	tFalse = Term{"false", SBool}
	tNil   = Term{"nilptr", SPtr}
)

func app(sort string, op string, args ...Term) Term {
	var sb strings.Builder
	sb.WriteByte('(')
	sb.WriteString(op)
	for _, a := range args {
		sb.WriteByte(' ')
		sb.WriteString(a.S)
	}
	sb.WriteByte(')')
	return Term{sb.String(), sort}
}

func and(ts ...Term) Term {
	var xs []Term
	seen := map[string]bool{}
	var add func(t Term) bool
	add = func(t Term) bool {
		if t.S == "true" || seen[t.S] {
			return true
		}
		if t.S == "false" {
			return false
		}
		if strings.HasPrefix(t.S, "(and ") {
			for _, p := range splitArgs(t.S)[1:] {
				if !add(Term{p, SBool}) {
					return false
				}
			}
			return true
		}
		seen[t.S] = true
		xs = append(xs, t)
		return true
	}
	for _, t := range ts {
		if !add(t) {
			return tFalse
		}
	}
	for _, x := range xs {
		if seen["(not "+x.S+")"] {
			return tFalse
		}
	}
	if len(xs) == 0 {
		return tTrue
	}
	if len(xs) == 1 {
		return xs[0]
	}
	return app(SBool, "and", xs...)
}

func or(ts ...Term) Term {
	var xs []Term
	seen := map[string]bool{}
	var add func(t Term) bool
	add = func(t Term) bool {
		if t.S == "false" || seen[t.S] {
			return true
		}
		if t.S == "true" {
			return false
		}
		if strings.HasPrefix(t.S, "(or ") {
			for _, p := range splitArgs(t.S)[1:] {
				if !add(Term{p, SBool}) {
					return false
				}
			}
			return true
		}
		seen[t.S] = true
		xs = append(xs, t)
		return true
	}
	for _, t := range ts {
		if !add(t) {
			return tTrue
		}
	}
	for _, x := range xs {
		if seen["(not "+x.S+")"] {
			return tTrue
		}
	}
	if len(xs) == 0 {
		return tFalse
	}
	if len(xs) == 1 {
		return xs[0]
	}
	return app(SBool, "or", xs...)
}

func not(t Term) Term {
	switch t.S {
	case "true":
		return tFalse
	case "false":
		return tTrue
	}
	if strings.HasPrefix(t.S, "(not ") {
		return Term{t.S[5 : len(t.S)-1], SBool}
	}
	return app(SBool, "not", t)
}

func implies(a, b Term) Term {
	if a.S == "true" {
		return b
	}
	if a.S == "false" || b.S == "true" {
		return tTrue
	}
	return app(SBool, "=>", a, b)
}

func eq(a, b Term) Term {
	if a.S == b.S {
		return tTrue
	}
	return app(SBool, "=", a, b)
}

func ite(c, a, b Term) Term {
	if c.S == "true" || a.S == b.S {
		return a
	}
	if c.S == "false" {
		return b
	}
	if a.Sort == SBool {
		switch {
		case b.S == "false":
			return and(c, a)
		case a.S == "true":
			return or(c, b)
		case a.S == "false":
			return and(not(c), b)
		case b.S == "true":
			return or(not(c), a)
		}
	}
	return app(a.Sort, "ite", c, a, b)
}

func sel(arr, idx Term, elemSort string) Term { return app(elemSort, "select", arr, idx) }
func store(arr, idx, v Term) Term             { return app(arr.Sort, "store", arr, idx, v) }

func arraySort(k, v string) string { return fmt.Sprintf("(Array %s %s)", k, v) }

// arrayElem returns the value sort of an "(Array K V)" sort string.
func arrayParts(s string) (string, string) {
	if !strings.HasPrefix(s, "(Array ") {
		return "", ""
	}
	inner := s[7 : len(s)-1]
	// split inner into two sorts at depth 0
	depth := 0
	for i := 0; i < len(inner); i++ {
		switch inner[i] {
		case '(':
			depth++
		case ')':
			depth--
		case ' ':
			if depth == 0 {
				return inner[:i], inner[i+1:]
			}
		}
	}
	return "", ""
}

// ---- sorts for Go types --------------------------------------------------------------------------

type Sorts struct {
	decls    []string          // datatype declarations in dependency order
	byType   map[string]string // type key -> sort name
	structs  map[string]*structInfo
	sizes    types.Sizes
	qual     types.Qualifier
	tsubst   map[*types.TypeParam]types.Type
	nameUsed map[string]bool
}

type structInfo struct {
	Sort   string
	Ctor   string
	Fields []string // selector names
	FSorts []string
	Go     *types.Struct
	Arr    *types.Array
}

func newSorts(q types.Qualifier) *Sorts {
	return &Sorts{byType: map[string]string{}, structs: map[string]*structInfo{}, qual: q, nameUsed: map[string]bool{}}
}

func sanitize(s string) string {
	var sb strings.Builder
	for _, r := range s {
		switch {
		case r >= 'a' && r <= 'z', r >= 'A' && r <= 'Z', r >= '0' && r <= '9', r == '_':
			sb.WriteRune(r)
		case r == '*':
			sb.WriteString("P")
		case r == '[' || r == ']':
			sb.WriteString("_")
		case r == '.':
			sb.WriteString("_")
		default:
			sb.WriteString("_")
		}
	}
	return sb.String()
}

func (s *Sorts) typeKey(t types.Type) string { return types.TypeString(t, s.qual) }

func intWidth(b *types.Basic) (int, bool) {
	switch b.Kind() {
	case types.Int8:
		return 8, true
	case types.Uint8:
		return 8, false
	case types.Int16:
		return 16, true
	case types.Uint16:
		return 16, false
	case types.Int32:
		return 32, true
	case types.Uint32:
		return 32, false
	case types.Int64, types.Int, types.UntypedInt, types.UntypedRune:
		return 64, true
	case types.Uint64, types.Uint, types.Uintptr:
		return 64, false
	}
	return 0, false
}

func isSigned(t types.Type) bool {
	if b, ok := t.Underlying().(*types.Basic); ok {
		_, s := intWidth(b)
		return s
	}
	return false
}

func isInteger(t types.Type) bool {
	if b, ok := t.Underlying().(*types.Basic); ok {
		return b.Info()&types.IsInteger != 0
	}
	return false
}

// sortOf maps a Go type to an SMT sort, declaring datatypes on demand.
func (s *Sorts) sortOf(t types.Type) (string, error) {
	if tp, ok := t.(*types.TypeParam); ok {
		if s.tsubst != nil {
			if r, ok := s.tsubst[tp]; ok {
				return s.sortOf(r)
			}
		}
		return SCell, nil
	}
	t = types.Unalias(t)
	switch u := t.Underlying().(type) {
	case *types.Basic:
		switch {
		case u.Info()&types.IsBoolean != 0:
			return SBool, nil
		case u.Info()&types.IsInteger != 0:
			w, _ := intWidth(u)
			return bvSort(w), nil
		case u.Info()&types.IsString != 0:
			return SStr, nil
		case u.Kind() == types.UnsafePointer:
			return SPtr, nil
		case u.Kind() == types.UntypedNil:
			return SPtr, nil
		case u.Info()&types.IsFloat != 0:
			return "Float", nil
		}
		return "", fmt.Errorf("unsupported basic type %s", t)
	case *types.Pointer, *types.Map, *types.Chan:
		return SPtr, nil
	case *types.Slice:
		return SSlice, nil
	case *types.Interface:
		if _, ok := t.(*types.TypeParam); ok {
			return SCell, nil
		}
		return SIface, nil
	case *types.Signature:
		return SFunc, nil
	case *types.Struct:
		si, err := s.structInfoOf(t)
		if err != nil {
			return "", err
		}
		return si.Sort, nil
	case *types.Array:
		si, err := s.structInfoOf(t)
		if err != nil {
			return "", err
		}
		return si.Sort, nil
	case *types.Tuple:
		return "", fmt.Errorf("tuple has no sort")
	}
	return "", fmt.Errorf("unsupported type %s", t)
}

func (s *Sorts) structInfoOf(t types.Type) (*structInfo, error) {
	t = types.Unalias(t)
	key := s.typeKey(t)
	if s.tsubst != nil && mentionsTypeParam(t, map[types.Type]bool{}) {
		// instantiate key
		key = key + s.substKey()
	}
	if si, ok := s.structs[key]; ok {
		return si, nil
	}
	name := "T_" + sanitize(key)
	for s.nameUsed[name] {
		name += "_"
	}
	s.nameUsed[name] = true
	si := &structInfo{Sort: name, Ctor: "mk_" + name}
	s.structs[key] = si // pre-register (recursive types are not expected by value)
	switch u := t.Underlying().(type) {
	case *types.Struct:
		si.Go = u
		for i := 0; i < u.NumFields(); i++ {
			fs, err := s.sortOf(u.Field(i).Type())
			if err != nil {
				return nil, fmt.Errorf("field %s: %v", u.Field(i).Name(), err)
			}
			si.Fields = append(si.Fields, fmt.Sprintf("%s_%s", name, sanitize(u.Field(i).Name())))
			si.FSorts = append(si.FSorts, fs)
		}
	case *types.Array:
		if u.Len() > 16 {
			return nil, fmt.Errorf("array too large to model as a value: %s", t)
		}
		si.Arr = u
		es, err := s.sortOf(u.Elem())
		if err != nil {
			return nil, err
		}
		for i := int64(0); i < u.Len(); i++ {
			si.Fields = append(si.Fields, fmt.Sprintf("%s_e%d", name, i))
			si.FSorts = append(si.FSorts, es)
		}
	}
	var sb strings.Builder
	fmt.Fprintf(&sb, "(declare-datatypes ((%s 0)) (((%s", name, si.Ctor)
	for i := range si.Fields {
		fmt.Fprintf(&sb, " (%s %s)", si.Fields[i], si.FSorts[i])
	}
	sb.WriteString("))))")
	if len(si.Fields) == 0 {
		sb.Reset()
		fmt.Fprintf(&sb, "(declare-datatypes ((%s 0)) (((%s))))", name, si.Ctor)
	}
	s.decls = append(s.decls, sb.String())
	return si, nil
}

// mentionsTypeParam: does the value layout of t depend on a type parameter?
func mentionsTypeParam(t types.Type, seen map[types.Type]bool) bool {
	if seen[t] {
		return false
	}
	seen[t] = true
	switch u := t.(type) {
	case *types.TypeParam:
		return true
	case *types.Named:
		if ta := u.TypeArgs(); ta != nil {
			for i := 0; i < ta.Len(); i++ {
				if mentionsTypeParam(ta.At(i), seen) {
					return true
				}
			}
		}
		return mentionsTypeParam(u.Underlying(), seen)
	case *types.Alias:
		return mentionsTypeParam(types.Unalias(u), seen)
	case *types.Struct:
		for i := 0; i < u.NumFields(); i++ {
			if mentionsTypeParam(u.Field(i).Type(), seen) {
				return true
			}
		}
	case *types.Array:
		return mentionsTypeParam(u.Elem(), seen)
	case *types.Pointer, *types.Slice, *types.Map, *types.Signature, *types.Chan, *types.Interface:
		return false // one sort whatever the element type is
	}
	return false
}

func (s *Sorts) substKey() string {
	if s.tsubst == nil {
		return ""
	}
	var ks []string
	for k, v := range s.tsubst {
		ks = append(ks, k.Obj().Name()+"="+s.typeKey(v))
	}
	sort.Strings(ks)
	return "{" + strings.Join(ks, ",") + "}"
}

func (si *structInfo) mk(fields []Term) Term {
	if len(fields) == 0 {
		return Term{si.Ctor, si.Sort}
	}
	return app(si.Sort, si.Ctor, fields...)
}

func (si *structInfo) get(v Term, i int) Term {
	// simplify selector over constructor
	if strings.HasPrefix(v.S, "("+si.Ctor+" ") {
		if parts := splitArgs(v.S); len(parts) == len(si.Fields)+1 {
			return Term{parts[i+1], si.FSorts[i]}
		}
	}
	return app(si.FSorts[i], si.Fields[i], v)
}

// splitArgs splits "(f a b c)" into [f a b c] at depth 1.
func splitArgs(s string) []string {
	if len(s) < 2 || s[0] != '(' {
		return nil
	}
	inner := s[1 : len(s)-1]
	var out []string
	depth := 0
	start := 0
	for i := 0; i < len(inner); i++ {
		switch inner[i] {
		case '(':
			depth++
		case ')':
			depth--
		case ' ':
			if depth == 0 {
				if i > start {
					out = append(out, inner[start:i])
				}
				start = i + 1
			}
		}
	}
	if start < len(inner) {
		out = append(out, inner[start:])
	}
	return out
}

// zero value of a sort (for Go zero values)
var zeroDepth int
var zeroStack []string

func (s *Sorts) zeroOf(t types.Type) (Term, error) {
	zeroDepth++
	zeroStack = append(zeroStack, t.String())
	defer func() { zeroDepth--; zeroStack = zeroStack[:len(zeroStack)-1] }()
	if zeroDepth > 60 {
		return Term{}, fmt.Errorf("zero value of recursive type %s: %v", t, zeroStack[len(zeroStack)-8:])
	}
	srt, err := s.sortOf(t)
	if err != nil {
		return Term{}, err
	}
	return s.zeroOfSort(srt, t)
}

func (s *Sorts) zeroOfSort(srt string, t types.Type) (Term, error) {
	switch {
	case srt == SBool:
		return tFalse, nil
	case bvWidth(srt) > 0:
		return bvLit(0, bvWidth(srt)), nil
	case srt == SPtr:
		return tNil, nil
	case srt == SSlice:
		return Term{"nilslice", SSlice}, nil
	case srt == SStr:
		return Term{"emptystr", SStr}, nil
	case srt == SIface:
		return Term{"niliface", SIface}, nil
	case srt == SFunc:
		return Term{"nilfunc", SFunc}, nil
	case srt == SCell:
		return Term{"zerocell", SCell}, nil
	case srt == "Float":
		return Term{"zerofloat", "Float"}, nil
	}
	if t != nil {
		si, err := s.structInfoOf(t)
		if err != nil {
			return Term{}, err
		}
		var fs []Term
		switch {
		case si.Go != nil:
			for i := 0; i < si.Go.NumFields(); i++ {
				z, err := s.zeroOf(si.Go.Field(i).Type())
				if err != nil {
					return Term{}, err
				}
				fs = append(fs, z)
			}
		case si.Arr != nil:
			for i := int64(0); i < si.Arr.Len(); i++ {
				z, err := s.zeroOf(si.Arr.Elem())
				if err != nil {
					return Term{}, err
				}
				fs = append(fs, z)
			}
		}
		return si.mk(fs), nil
	}
	return Term{}, fmt.Errorf("no zero for sort %s", srt)
}

const smtPrelude = `(set-option :produce-models true)
(set-logic ALL)
(declare-datatypes ((Path 0)) (((PNil) (PT (pt_tag Int)) (PF (pf_p Path) (pf_i Int)) (PE (pe_p Path) (pe_i (_ BitVec 64))))))
(declare-datatypes ((Ptr 0)) (((mkptr (alloc Int) (path Path)))))
(declare-datatypes ((Slice 0)) (((mkslice (sptr Ptr) (slen (_ BitVec 64)) (scap (_ BitVec 64))))))
(declare-sort Str 0)
(declare-sort Iface 0)
(declare-sort Func 0)
(declare-sort Cell 0)
(declare-sort Float 0)
(declare-const emptystr Str)
(declare-const niliface Iface)
(declare-const nilfunc Func)
(declare-const zerocell Cell)
(declare-const zerofloat Float)
(define-fun nilptr () Ptr (mkptr 0 PNil))
(define-fun nilslice () Slice (mkslice nilptr (_ bv0 64) (_ bv0 64)))
(define-fun fieldptr ((p Ptr) (k Int)) Ptr (mkptr (alloc p) (PF (path p) k)))
(define-fun elemptr ((p Ptr) (i (_ BitVec 64))) Ptr (mkptr (alloc p) (PE (pe_p (path p)) (bvadd (pe_i (path p)) i))))
(define-fun inr0 ((p Path) (bp Path) (lo (_ BitVec 64)) (hi (_ BitVec 64))) Bool
  (and ((_ is PE) p) (= (pe_p p) (pe_p bp)) (bvule lo (bvsub (pe_i p) (pe_i bp))) (bvult (bvsub (pe_i p) (pe_i bp)) hi)))
(define-fun inr1 ((p Path) (bp Path) (lo (_ BitVec 64)) (hi (_ BitVec 64))) Bool
  (or (inr0 p bp lo hi) (and ((_ is PF) p) (inr0 (pf_p p) bp lo hi)) (and ((_ is PE) p) (inr0 (pe_p p) bp lo hi))))
(define-fun inr2 ((p Path) (bp Path) (lo (_ BitVec 64)) (hi (_ BitVec 64))) Bool
  (or (inr0 p bp lo hi) (and ((_ is PF) p) (inr1 (pf_p p) bp lo hi)) (and ((_ is PE) p) (inr1 (pe_p p) bp lo hi))))
(define-fun inr3 ((p Path) (bp Path) (lo (_ BitVec 64)) (hi (_ BitVec 64))) Bool
  (or (inr0 p bp lo hi) (and ((_ is PF) p) (inr2 (pf_p p) bp lo hi)) (and ((_ is PE) p) (inr2 (pe_p p) bp lo hi))))
(define-fun inrange ((q Ptr) (p Ptr) (lo (_ BitVec 64)) (hi (_ BitVec 64))) Bool
  (and (= (alloc q) (alloc p)) (inr3 (path q) (path p) lo hi)))
(define-fun rebase0 ((p Path) (np Path) (no (_ BitVec 64))) Path
  (ite (and ((_ is PE) p) ((_ is PT) (pe_p p))) (PE np (bvadd no (pe_i p))) p))
(define-fun rootidx0 ((p Path)) (_ BitVec 64)
  (ite (and ((_ is PE) p) ((_ is PT) (pe_p p))) (pe_i p) #xffffffffffffffff))
(define-fun rebase1 ((p Path) (np Path) (no (_ BitVec 64))) Path
  (ite (and ((_ is PE) p) ((_ is PT) (pe_p p))) (PE np (bvadd no (pe_i p)))
  (ite ((_ is PF) p) (PF (rebase0 (pf_p p) np no) (pf_i p))
  (ite ((_ is PE) p) (PE (rebase0 (pe_p p) np no) (pe_i p)) p))))
(define-fun rootidx1 ((p Path)) (_ BitVec 64)
  (ite (and ((_ is PE) p) ((_ is PT) (pe_p p))) (pe_i p)
  (ite ((_ is PF) p) (rootidx0 (pf_p p))
  (ite ((_ is PE) p) (rootidx0 (pe_p p)) #xffffffffffffffff))))
(define-fun rebase2 ((p Path) (np Path) (no (_ BitVec 64))) Path
  (ite (and ((_ is PE) p) ((_ is PT) (pe_p p))) (PE np (bvadd no (pe_i p)))
  (ite ((_ is PF) p) (PF (rebase1 (pf_p p) np no) (pf_i p))
  (ite ((_ is PE) p) (PE (rebase1 (pe_p p) np no) (pe_i p)) p))))
(define-fun rootidx2 ((p Path)) (_ BitVec 64)
  (ite (and ((_ is PE) p) ((_ is PT) (pe_p p))) (pe_i p)
  (ite ((_ is PF) p) (rootidx1 (pf_p p))
  (ite ((_ is PE) p) (rootidx1 (pe_p p)) #xffffffffffffffff))))
(define-fun rebase3 ((p Path) (np Path) (no (_ BitVec 64))) Path
  (ite (and ((_ is PE) p) ((_ is PT) (pe_p p))) (PE np (bvadd no (pe_i p)))
  (ite ((_ is PF) p) (PF (rebase2 (pf_p p) np no) (pf_i p))
  (ite ((_ is PE) p) (PE (rebase2 (pe_p p) np no) (pe_i p)) p))))
(define-fun rootidx3 ((p Path)) (_ BitVec 64)
  (ite (and ((_ is PE) p) ((_ is PT) (pe_p p))) (pe_i p)
  (ite ((_ is PF) p) (rootidx2 (pf_p p))
  (ite ((_ is PE) p) (rootidx2 (pe_p p)) #xffffffffffffffff))))
(define-fun popcnt64 ((x (_ BitVec 64))) (_ BitVec 64)
  ((_ zero_extend 56) (bvadd ((_ zero_extend 7) ((_ extract 0 0) x)) ((_ zero_extend 7) ((_ extract 1 1) x)) ((_ zero_extend 7) ((_ extract 2 2) x)) ((_ zero_extend 7) ((_ extract 3 3) x)) ((_ zero_extend 7) ((_ extract 4 4) x)) ((_ zero_extend 7) ((_ extract 5 5) x)) ((_ zero_extend 7) ((_ extract 6 6) x)) ((_ zero_extend 7) ((_ extract 7 7) x)) ((_ zero_extend 7) ((_ extract 8 8) x)) ((_ zero_extend 7) ((_ extract 9 9) x)) ((_ zero_extend 7) ((_ extract 10 10) x)) ((_ zero_extend 7) ((_ extract 11 11) x)) ((_ zero_extend 7) ((_ extract 12 12) x)) ((_ zero_extend 7) ((_ extract 13 13) x)) ((_ zero_extend 7) ((_ extract 14 14) x)) ((_ zero_extend 7) ((_ extract 15 15) x)) ((_ zero_extend 7) ((_ extract 16 16) x)) ((_ zero_extend 7) ((_ extract 17 17) x)) ((_ zero_extend 7) ((_ extract 18 18) x)) ((_ zero_extend 7) ((_ extract 19 19) x)) ((_ zero_extend 7) ((_ extract 20 20) x)) ((_ zero_extend 7) ((_ extract 21 21) x)) ((_ zero_extend 7) ((_ extract 22 22) x)) ((_ zero_extend 7) ((_ extract 23 23) x)) ((_ zero_extend 7) ((_ extract 24 24) x)) ((_ zero_extend 7) ((_ extract 25 25) x)) ((_ zero_extend 7) ((_ extract 26 26) x)) ((_ zero_extend 7) ((_ extract 27 27) x)) ((_ zero_extend 7) ((_ extract 28 28) x)) ((_ zero_extend 7) ((_ extract 29 29) x)) ((_ zero_extend 7) ((_ extract 30 30) x)) ((_ zero_extend 7) ((_ extract 31 31) x)) ((_ zero_extend 7) ((_ extract 32 32) x)) ((_ zero_extend 7) ((_ extract 33 33) x)) ((_ zero_extend 7) ((_ extract 34 34) x)) ((_ zero_extend 7) ((_ extract 35 35) x)) ((_ zero_extend 7) ((_ extract 36 36) x)) ((_ zero_extend 7) ((_ extract 37 37) x)) ((_ zero_extend 7) ((_ extract 38 38) x)) ((_ zero_extend 7) ((_ extract 39 39) x)) ((_ zero_extend 7) ((_ extract 40 40) x)) ((_ zero_extend 7) ((_ extract 41 41) x)) ((_ zero_extend 7) ((_ extract 42 42) x)) ((_ zero_extend 7) ((_ extract 43 43) x)) ((_ zero_extend 7) ((_ extract 44 44) x)) ((_ zero_extend 7) ((_ extract 45 45) x)) ((_ zero_extend 7) ((_ extract 46 46) x)) ((_ zero_extend 7) ((_ extract 47 47) x)) ((_ zero_extend 7) ((_ extract 48 48) x)) ((_ zero_extend 7) ((_ extract 49 49) x)) ((_ zero_extend 7) ((_ extract 50 50) x)) ((_ zero_extend 7) ((_ extract 51 51) x)) ((_ zero_extend 7) ((_ extract 52 52) x)) ((_ zero_extend 7) ((_ extract 53 53) x)) ((_ zero_extend 7) ((_ extract 54 54) x)) ((_ zero_extend 7) ((_ extract 55 55) x)) ((_ zero_extend 7) ((_ extract 56 56) x)) ((_ zero_extend 7) ((_ extract 57 57) x)) ((_ zero_extend 7) ((_ extract 58 58) x)) ((_ zero_extend 7) ((_ extract 59 59) x)) ((_ zero_extend 7) ((_ extract 60 60) x)) ((_ zero_extend 7) ((_ extract 61 61) x)) ((_ zero_extend 7) ((_ extract 62 62) x)) ((_ zero_extend 7) ((_ extract 63 63) x)))))
`
