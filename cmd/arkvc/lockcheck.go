package main

// Lock-discipline pass (property C07, world level). Obligations decided on the SSA of every
// function of package ecs (a sound sufficient condition, no SMT needed):
//
//   balance(lock)   a lock bit obtained from World.lock / storage.lock inside a function is
//                   released by unlock with that same value on every path to a normal return,
//                   and never released twice; paths that end in a panic are exempt.
//   guard(checkLocked)   in every function that (transitively) reaches a structural primitive,
//                   a call of World.checkLocked dominates the first such call, unless the function
//                   is itself only reachable from guarded functions (internal helpers), which is
//                   established by checking the exported and generated API entry points.

import (
	"fmt"
	"os"
	"sort"
	"strings"

	"golang.org/x/tools/go/ssa"
)

type lockFinding struct {
	Func string
	Kind string
	What string
	Line string
}

func isLockAcquire(f *ssa.Function) bool {
	n := f.RelString(nil)
	return strings.HasSuffix(n, ".World).lock") || strings.HasSuffix(n, ".storage).lock")
}

func isLockRelease(f *ssa.Function) bool {
	n := f.RelString(nil)
	return strings.HasSuffix(n, ".World).unlock") || strings.HasSuffix(n, ".storage).unlock")
}

// isLockHandover: the acquisition used by query constructors, which return while the bit is held
// (the query releases it when it is exhausted or closed).
func isLockHandover(f *ssa.Function) bool {
	n := f.RelString(nil)
	return strings.HasSuffix(n, ".World).lockSafe")
}

// mayPanicExplicitly: the function, or a package function it calls statically (transitively),
// contains an explicit panic; calls through function values and interfaces count as "may panic".
func mayPanicExplicitly(f *ssa.Function, seen map[*ssa.Function]bool) bool {
	if f == nil || seen[f] {
		return false
	}
	seen[f] = true
	if len(f.Blocks) == 0 {
		return false // external (standard library) function: not a rejection path of ark
	}
	for _, b := range f.Blocks {
		for _, ins := range b.Instrs {
			if _, ok := ins.(*ssa.Panic); ok {
				return true
			}
			if c, ok := ins.(ssa.CallInstruction); ok {
				if _, isB := c.Common().Value.(*ssa.Builtin); isB {
					continue
				}
				if g := calleeOf(ins); g != nil {
					if mayPanicExplicitly(g, seen) {
						return true
					}
				} else {
					return true
				}
			}
		}
	}
	return false
}

// lockHandover checks one function: after a call of World.lockSafe whose bit the function hands
// over to its caller (query constructors), no path to the return may pass an explicit panic or a
// call that may panic explicitly -- a rejected argument after the acquisition would leak the bit:
// the world would stay locked although no query exists.
func lockHandover(L *Loaded, name string, fn *ssa.Function) ([]lockFinding, int) {
	var out []lockFinding
	n := 0
	for _, b0 := range fn.Blocks {
		for i0, ins0 := range b0.Instrs {
			acq, ok := ins0.(*ssa.Call)
			if !ok {
				continue
			}
			if f := calleeOf(acq); f == nil || !isLockHandover(f) {
				continue
			}
			n++
			p := L.Fset.Position(acq.Pos())
			line := lineText(p.Filename, p.Line)
			type st struct {
				b   *ssa.BasicBlock
				idx int
			}
			seen := map[*ssa.BasicBlock]bool{}
			work := []st{{b0, i0 + 1}}
			for len(work) > 0 {
				s := work[len(work)-1]
				work = work[:len(work)-1]
				if s.idx == 0 {
					if seen[s.b] {
						continue
					}
					seen[s.b] = true
				}
				for i := s.idx; i < len(s.b.Instrs); i++ {
					ins := s.b.Instrs[i]
					what := ""
					switch x := ins.(type) {
					case *ssa.Panic:
						what = "explicit panic"
					case ssa.CallInstruction:
						if _, isB := x.Common().Value.(*ssa.Builtin); isB {
							break
						}
						g := calleeOf(ins)
						if g == nil {
							what = "call through a function value or interface"
						} else if mayPanicExplicitly(g, map[*ssa.Function]bool{}) {
							what = "call of " + g.RelString(L.SPkg.Pkg) + ", which may panic explicitly,"
						}
					}
					if what != "" {
						pp := L.Fset.Position(ins.Pos())
						out = append(out, lockFinding{name, "handover", what + " after the lock bit was obtained at \"" + line + "\" and before it is handed over: a rejection here leaks the bit", lineText(pp.Filename, pp.Line)})
					}
				}
				for _, succ := range s.b.Succs {
					work = append(work, st{succ, 0})
				}
			}
		}
	}
	return dedupFindings(out), n
}

func calleeOf(ins ssa.Instruction) *ssa.Function {
	c, ok := ins.(ssa.CallInstruction)
	if !ok {
		return nil
	}
	switch v := c.Common().Value.(type) {
	case *ssa.Function:
		if v.Origin() != nil {
			return v.Origin()
		}
		return v
	case *ssa.MakeClosure:
		return v.Fn.(*ssa.Function)
	}
	return nil
}

// lockBalance checks one function: returns findings.
func lockBalance(L *Loaded, name string, fn *ssa.Function) []lockFinding {
	var out []lockFinding
	// collect acquire calls
	var acquires []*ssa.Call
	for _, b := range fn.Blocks {
		for _, ins := range b.Instrs {
			if c, ok := ins.(*ssa.Call); ok {
				if f := calleeOf(c); f != nil && isLockAcquire(f) {
					acquires = append(acquires, c)
				}
			}
		}
	}
	for _, acq := range acquires {
		// forward exploration from the acquire: state = released or not
		type st struct {
			b        *ssa.BasicBlock
			idx      int
			released bool
			known    string // decided branch conditions on this path: "name=T;name=F;"
		}
		seen := map[string]bool{}
		// the acquire itself may sit under a condition: record the conditions that dominate it
		known0 := ""
		for b := acq.Block(); b != nil; b = b.Idom() {
			id := b.Idom()
			if id == nil {
				break
			}
			if iff, ok := id.Instrs[len(id.Instrs)-1].(*ssa.If); ok && len(id.Succs) == 2 {
				if id.Succs[0] == b && id.Succs[1] != b && len(b.Preds) == 1 {
					known0 += iff.Cond.Name() + "=T;"
				} else if id.Succs[1] == b && id.Succs[0] != b && len(b.Preds) == 1 {
					known0 += iff.Cond.Name() + "=F;"
				}
			}
		}
		work := []st{{acq.Block(), indexOf(acq) + 1, false, known0}}
		p := L.Fset.Position(acq.Pos())
		line := lineText(p.Filename, p.Line)
		for len(work) > 0 {
			s := work[len(work)-1]
			work = work[:len(work)-1]
			key := fmt.Sprintf("%d/%d/%v/%s", s.b.Index, s.idx, s.released, s.known)
			if seen[key] {
				continue
			}
			seen[key] = true
			released := s.released
			terminated := false
			for i := s.idx; i < len(s.b.Instrs); i++ {
				ins := s.b.Instrs[i]
				if c, ok := ins.(*ssa.Call); ok {
					if f := calleeOf(c); f != nil && isLockRelease(f) {
						args := c.Common().Args
						if len(args) >= 2 && sameLockValue(args[1], acq) {
							if released {
								pp := L.Fset.Position(c.Pos())
								out = append(out, lockFinding{name, "balance", "lock bit released twice on one path", lineText(pp.Filename, pp.Line)})
							}
							released = true
						}
					}
					if c == acq && i != indexOf(acq) {
						// loop back to the acquire itself: a new activation
						terminated = true
						break
					}
				}
				switch ins.(type) {
				case *ssa.Return:
					if !released {
						pp := L.Fset.Position(ins.Pos())
						out = append(out, lockFinding{name, "balance", "normal return while the lock bit obtained at \"" + line + "\" is still held", lineText(pp.Filename, pp.Line)})
					}
					terminated = true
				case *ssa.Panic:
					terminated = true
				}
				if terminated {
					break
				}
			}
			if terminated {
				continue
			}
			// correlated branches: a condition that was defined before the acquire keeps its value
			if iff, ok := s.b.Instrs[len(s.b.Instrs)-1].(*ssa.If); ok && len(s.b.Succs) == 2 {
				name := iff.Cond.Name()
				defBefore := true
				if ci, ok := iff.Cond.(ssa.Instruction); ok {
					defBefore = ci.Block().Dominates(acq.Block())
				}
				switch {
				case strings.Contains(s.known, name+"=T;"):
					work = append(work, st{s.b.Succs[0], 0, released, s.known})
				case strings.Contains(s.known, name+"=F;"):
					work = append(work, st{s.b.Succs[1], 0, released, s.known})
				case defBefore:
					work = append(work, st{s.b.Succs[0], 0, released, s.known + name + "=T;"})
					work = append(work, st{s.b.Succs[1], 0, released, s.known + name + "=F;"})
				default:
					work = append(work, st{s.b.Succs[0], 0, released, s.known})
					work = append(work, st{s.b.Succs[1], 0, released, s.known})
				}
				continue
			}
			for _, succ := range s.b.Succs {
				work = append(work, st{succ, 0, released, s.known})
			}
		}
	}
	return dedupFindings(out)
}

// mustFollow: protocol obligations "after a call of first(x) every path to a normal return calls
// then(x)" — a sufficient condition for an index that is maintained by paired calls to stay in
// step (I-cache: a table that is freed leaves every cache entry).
var mustFollow = []struct{ first, then, what string }{
	{"(*archetype).FreeTable", "(*cache).removeTable", "a freed table must be removed from the filter cache"},
	{"(*archetype).AddTable", "(*cache).addTable", "a table added to an archetype must be offered to the filter cache"},
}

func pairingCheck(L *Loaded, name string, fn *ssa.Function) []lockFinding {
	var out []lockFinding
	rel := func(f *ssa.Function) string { return f.RelString(L.SPkg.Pkg) }
	for _, pr := range mustFollow {
		for _, b := range fn.Blocks {
			for i, ins := range b.Instrs {
				c, ok := ins.(*ssa.Call)
				if !ok {
					continue
				}
				f := calleeOf(c)
				if f == nil || rel(f) != pr.first {
					continue
				}
				args := c.Common().Args
				if len(args) < 2 {
					continue
				}
				x := args[len(args)-1]
				// forward exploration
				type st struct {
					b   *ssa.BasicBlock
					idx int
				}
				seen := map[int]bool{}
				work := []st{{b, i + 1}}
				bad := false
				for len(work) > 0 && !bad {
					s := work[len(work)-1]
					work = work[:len(work)-1]
					if s.idx == 0 {
						if seen[s.b.Index] {
							continue
						}
						seen[s.b.Index] = true
					}
					done := false
					for k := s.idx; k < len(s.b.Instrs); k++ {
						in2 := s.b.Instrs[k]
						if c2, ok := in2.(*ssa.Call); ok {
							if f2 := calleeOf(c2); f2 != nil && rel(f2) == pr.then {
								a2 := c2.Common().Args
								if len(a2) > 0 && sameTableValue(a2[len(a2)-1], x) {
									done = true
									break
								}
							}
						}
						if _, ok := in2.(*ssa.Return); ok {
							bad = true
							break
						}
						if _, ok := in2.(*ssa.Panic); ok {
							done = true
							break
						}
					}
					if done || bad {
						continue
					}
					for _, succ := range s.b.Succs {
						work = append(work, st{succ, 0})
					}
				}
				if bad {
					p := L.Fset.Position(c.Pos())
					out = append(out, lockFinding{name, "follows", pr.what + ": " + pr.first + " is not followed by " + pr.then + " on every path", lineText(p.Filename, p.Line)})
				}
			}
		}
	}
	return out
}

// sameTableValue: the same SSA value, or two addresses of the same slice element.
func sameTableValue(a, b ssa.Value) bool {
	if a == b {
		return true
	}
	ia, ok1 := a.(*ssa.IndexAddr)
	ib, ok2 := b.(*ssa.IndexAddr)
	if ok1 && ok2 && ia.Index == ib.Index {
		la, okA := ia.X.(*ssa.UnOp)
		lb, okB := ib.X.(*ssa.UnOp)
		if okA && okB {
			fa, okA := la.X.(*ssa.FieldAddr)
			fb, okB := lb.X.(*ssa.FieldAddr)
			return okA && okB && fa.Field == fb.Field && fa.X == fb.X
		}
	}
	return false
}

func sameLockValue(v ssa.Value, acq *ssa.Call) bool {
	if v == acq {
		return true
	}
	// through phi nodes that only merge the same acquire
	if phi, ok := v.(*ssa.Phi); ok {
		n := 0
		for _, e := range phi.Edges {
			if _, isConst := e.(*ssa.Const); isConst {
				continue // the zero value of a variable that is assigned the lock bit on the other edge
			}
			if e != acq {
				return false
			}
			n++
		}
		return n > 0
	}
	return false
}

func indexOf(ins ssa.Instruction) int {
	for i, x := range ins.Block().Instrs {
		if x == ins {
			return i
		}
	}
	return -1
}

func dedupFindings(fs []lockFinding) []lockFinding {
	seen := map[string]bool{}
	var out []lockFinding
	for _, f := range fs {
		k := f.Func + "|" + f.Kind + "|" + f.What + "|" + f.Line
		if !seen[k] {
			seen[k] = true
			out = append(out, f)
		}
	}
	return out
}

// structural primitives: functions whose effect is a structural change of the world
var structuralPrims = []string{
	"(*storage).createEntity", "(*storage).createEntities", "(*storage).RemoveEntity", "(*storage).moveEntities",
	"(*storage).createTable", "(*storage).createArchetype", "(*storage).cleanupArchetypes", "(*storage).Reset",
	"(*storage).Shrink", "(*storage).findOrCreateTable", "(*storage).findOrCreateTableAdd", "(*storage).findOrCreateTableRemove",
	"(*table).Add", "(*table).Remove", "(*table).AddAll", "(*table).AddAllEntities", "(*table).Reset", "(*table).Alloc",
	"(*entityPool).Get", "(*entityPool).Recycle", "(*entityPool).Reset", "(*archetype).FreeTable", "(*archetype).AddTable",
	"(*archetype).RemoveTarget", "(*archetype).Reset",
}

// guardCheck: every exported entry point that reaches a structural primitive must call
// checkLocked (directly or through its callees) before the first call that reaches one.
func guardCheck(L *Loaded) (findings []lockFinding, nEntry int, nGuarded int) {
	prim := map[string]bool{}
	for _, p := range structuralPrims {
		prim[p] = true
	}
	rel := func(f *ssa.Function) string { return f.RelString(L.SPkg.Pkg) }
	// reach[f]: f reaches a structural primitive (transitively through static calls and closures)
	reach := map[*ssa.Function]int{} // 0 unknown, 1 in progress, 2 yes, 3 no
	var reaches func(f *ssa.Function) bool
	reaches = func(f *ssa.Function) bool {
		if f == nil {
			return false
		}
		if prim[rel(f)] {
			return true
		}
		switch reach[f] {
		case 1, 3:
			return false
		case 2:
			return true
		}
		reach[f] = 1
		r := false
		for _, b := range f.Blocks {
			for _, ins := range b.Instrs {
				if c := calleeOf(ins); c != nil && (c.Pkg == L.SPkg) {
					if reaches(c) {
						r = true
					}
				}
			}
		}
		if r {
			reach[f] = 2
		} else {
			reach[f] = 3
		}
		return r
	}
	isCheck := func(f *ssa.Function) bool { return strings.HasSuffix(rel(f), "World).checkLocked") }
	// establishes(f): every path through f to a normal return calls checkLocked (must-analysis)
	estMemo := map[*ssa.Function]int{}
	var establishes func(f *ssa.Function) bool
	// safe(f): on every path of f, no call that reaches a structural primitive happens before a
	// guard, where a guard is checkLocked or a callee that establishes it, and a callee that
	// reaches a primitive must itself be safe
	safeMemo := map[*ssa.Function]int{}
	var safe func(f *ssa.Function) bool
	explore := func(f *ssa.Function, wantSafe bool) bool {
		if f == nil || len(f.Blocks) == 0 {
			return false
		}
		type st struct {
			b *ssa.BasicBlock
			g bool
		}
		seen := map[string]bool{}
		work := []st{{f.Blocks[0], false}}
		for len(work) > 0 {
			s := work[len(work)-1]
			work = work[:len(work)-1]
			key := fmt.Sprintf("%d/%v", s.b.Index, s.g)
			if seen[key] {
				continue
			}
			seen[key] = true
			g := s.g
			ended := false
			for _, ins := range s.b.Instrs {
				if c := calleeOf(ins); c != nil {
					switch {
					case isCheck(c) || establishes(c):
						g = true
					case wantSafe && !g && reaches(c):
						if prim[rel(c)] || !safe(c) {
							return false
						}
					}
				}
				switch ins.(type) {
				case *ssa.Return:
					if !wantSafe && !g {
						return false
					}
					ended = true
				case *ssa.Panic:
					ended = true
				}
			}
			if ended {
				continue
			}
			for _, succ := range s.b.Succs {
				work = append(work, st{succ, g})
			}
		}
		return true
	}
	establishes = func(f *ssa.Function) bool {
		if v, ok := estMemo[f]; ok {
			return v == 2
		}
		estMemo[f] = 1
		r := explore(f, false)
		if r {
			estMemo[f] = 2
		} else {
			estMemo[f] = 3
		}
		return r
	}
	safe = func(f *ssa.Function) bool {
		if v, ok := safeMemo[f]; ok {
			return v != 3 // in progress (recursion): optimistic
		}
		safeMemo[f] = 1
		r := explore(f, true)
		if r {
			safeMemo[f] = 2
		} else {
			safeMemo[f] = 3
		}
		return r
	}
	guardsFirst := safe
	var names []string
	for n := range L.Funcs {
		names = append(names, n)
	}
	sort.Strings(names)
	for _, n := range names {
		f := L.Funcs[n]
		if f.Pkg != L.SPkg || f.Synthetic != "" {
			continue
		}
		if os.Getenv("ARKVC_DEBUG") != "" && strings.Contains(n, "World).RemoveEntity") {
			fmt.Fprintf(os.Stderr, "dbg %s entry=%v reaches=%v\n", n, isEntryPoint(f), reaches(f))
		}
		if !isEntryPoint(f) || !reaches(f) {
			continue
		}
		nEntry++
		if guardsFirst(f) {
			nGuarded++
			continue
		}
		p := L.Fset.Position(f.Pos())
		findings = append(findings, lockFinding{n, "guard", "exported operation reaches a structural primitive without a dominating checkLocked", lineText(p.Filename, p.Line)})
	}
	return
}

// isEntryPoint: exported functions and exported methods of exported types.
func isEntryPoint(f *ssa.Function) bool {
	if f.Parent() != nil || f.Object() == nil || !f.Object().Exported() {
		return false
	}
	if recv := f.Signature.Recv(); recv != nil {
		t := recv.Type().String()
		i := strings.LastIndex(t, ".")
		name := strings.TrimLeft(t[i+1:], "*")
		if name == "" || !(name[0] >= 'A' && name[0] <= 'Z') {
			return false
		}
	}
	return true
}

func (r *Report) runLockCheck(allowFile string) (int, map[string]any) {
	allow := readAllow(allowFile)
	var names []string
	for n := range r.L.Funcs {
		names = append(names, n)
	}
	sort.Strings(names)
	var all []lockFinding
	nAcq := 0
	nHand := 0
	for _, n := range names {
		f := r.L.Funcs[n]
		if f.Synthetic != "" || (f.Pkg != r.L.SPkg && !(f.Origin() != nil && f.Origin().Pkg == r.L.SPkg)) {
			continue
		}
		for _, b := range f.Blocks {
			for _, ins := range b.Instrs {
				if c := calleeOf(ins); c != nil && isLockAcquire(c) {
					nAcq++
				}
			}
		}
		all = append(all, lockBalance(r.L, n, f)...)
		hf, nh := lockHandover(r.L, n, f)
		all = append(all, hf...)
		nHand += nh
		if r.Sweep == "pairing" {
			all = all[:0]
		}
	}
	if r.Sweep == "pairing" {
		all = nil
		for _, n := range names {
			f := r.L.Funcs[n]
			if f.Synthetic != "" || f.Pkg != r.L.SPkg {
				continue
			}
			all = append(all, pairingCheck(r.L, n, f)...)
		}
	}
	gf, nEntry, nGuarded := guardCheck(r.L)
	if r.Sweep != "pairing" {
		all = append(all, gf...)
	}
	v := 0
	var samples []any
	for _, f := range all {
		key := f.Func + "\t" + f.Kind + "\t" + f.Line
		if why, ok := allow[key]; ok {
			samples = append(samples, map[string]any{"function": f.Func, "obligation": f.Kind, "status": "allow-listed: " + why})
			continue
		}
		v++
		dir := r.ReplayDir
		if dir == "" {
			dir = "replays"
		}
		os.MkdirAll(dir+"/"+r.Prop, 0o755)
		path := fmt.Sprintf("%s/%s/lock_%x.txt", dir, r.Prop, hashStr(key+f.What))
		os.WriteFile(path, []byte(fmt.Sprintf("property: %s\nobligation: %s#%s(lock)\nfunction: %s\nfinding: %s\nat: %s\n", r.Prop, f.Func, f.Kind, f.Func, f.What, f.Line)), 0o644)
		// a failing protocol obligation may be the return of a fixed defect: its replay is a real failing input
		extra := "no-failing-input-found"
		fmt.Printf("VIOLATION property=%s replay=%s obligation=%s#%s %s\n", r.Prop, path, strings.ReplaceAll(f.Func, " ", "_"), f.Kind, extra)
	}
	samples = append(samples, map[string]any{"lock_acquire_sites": nAcq, "lock_handover_sites": nHand, "entry_points_reaching_structural_primitives": nEntry, "of_which_guarded_by_checkLocked": nGuarded})
	fmt.Printf("%s pass: acquire sites=%d handover sites=%d entry points=%d guarded=%d findings=%d\n", r.Sweep, nAcq, nHand, nEntry, nGuarded, v)
	cov := map[string]any{"lock_acquire_sites": nAcq, "lock_handover_sites": nHand, "entry_points": nEntry, "entry_points_guarded": nGuarded, "lock_findings": v, "lock_samples": samples}
	return v, cov
}

func readAllow(file string) map[string]string {
	allow := map[string]string{}
	data, err := os.ReadFile(file)
	if err != nil {
		return allow
	}
	for _, l := range strings.Split(string(data), "\n") {
		if l == "" || strings.HasPrefix(l, "#") {
			continue
		}
		p := strings.SplitN(l, "\t", 4)
		if len(p) == 4 {
			allow[p[0]+"\t"+p[1]+"\t"+p[2]] = p[3]
		}
	}
	return allow
}
