package main

import (
	"bufio"
	"fmt"
	"go/types"
	"os"
	"sort"
	"strings"

	"golang.org/x/tools/go/ssa"
)

var lineCache = map[string][]string{}

func lineText(file string, line int) string {
	ls, ok := lineCache[file]
	if !ok {
		f, err := os.Open(file)
		if err == nil {
			sc := bufio.NewScanner(f)
			sc.Buffer(make([]byte, 1<<20), 1<<20)
			for sc.Scan() {
				ls = append(ls, sc.Text())
			}
			f.Close()
		}
		lineCache[file] = ls
	}
	if line-1 < len(ls) && line >= 1 {
		return strings.TrimSpace(ls[line-1])
	}
	return "?"
}

// FuncResult is the outcome of generating VCs for one function.
type FuncResult struct {
	Name     string
	Spec     *FuncSpec
	VC       *VC
	Obls     []*Obl
	Err      string // unsupported construct etc. (undecided)
	Assumed  []string
	Trusted  bool
}

// splitConj splits a Bool term into its top-level conjuncts.
func splitConj(t Term) []Term {
	// guarded conjunctions: (or g1 .. (and c1 .. cn)) and (=> g (and ..)) are split per conjunct
	if strings.HasPrefix(t.S, "(or ") {
		parts := splitArgs(t.S)
		andIdx := -1
		for i, p := range parts[1:] {
			if strings.HasPrefix(p, "(and ") {
				if andIdx >= 0 {
					andIdx = -2
					break
				}
				andIdx = i + 1
			}
		}
		if andIdx > 0 {
			var others []Term
			for i, p := range parts[1:] {
				if i+1 != andIdx {
					others = append(others, Term{p, SBool})
				}
			}
			var out []Term
			for _, c := range splitConj(Term{parts[andIdx], SBool}) {
				out = append(out, or(append(append([]Term{}, others...), c)...))
			}
			return out
		}
	}
	if strings.HasPrefix(t.S, "(=> ") {
		parts := splitArgs(t.S)
		if len(parts) == 3 && strings.HasPrefix(parts[2], "(and ") {
			var out []Term
			for _, c := range splitConj(Term{parts[2], SBool}) {
				out = append(out, implies(Term{parts[1], SBool}, c))
			}
			return out
		}
	}
	if strings.HasPrefix(t.S, "(and ") {
		parts := splitArgs(t.S)
		var out []Term
		for _, p := range parts[1:] {
			out = append(out, splitConj(Term{p, SBool})...)
		}
		return out
	}
	return []Term{t}
}

// obligeAssumed: obligations whose goal is assumed afterwards (preconditions of callees, assert
// hints, earlier ensures): later obligations are only as good as these, which is recorded.
func (vc *VC) obligeAssumed(kind, name string, guard, goal Term, cl *Clause) {
	before := len(vc.obls)
	vc.obligeSplit(kind, name, guard, goal, cl)
	for _, o := range vc.obls[before:] {
		vc.deps = append(vc.deps, o.Name)
	}
}

func (vc *VC) obligeSplit(kind, name string, guard, goal Term, cl *Clause) {
	cs := splitConj(goal)
	for i, c := range cs {
		n := name
		if len(cs) > 1 {
			n = fmt.Sprintf("%s.%d", name, i+1)
		}
		before := len(vc.obls)
		vc.oblige(kind, n, guard, c, 0)
		if len(vc.obls) > before && cl != nil {
			vc.obls[len(vc.obls)-1].Detail = fmt.Sprintf("%s:%d", cl.File, cl.Line)
		}
	}
}

func verifyFunction(L *Loaded, fn *ssa.Function, fs *FuncSpec) (res *FuncResult) {
	vc := newVC(L, fn)
	res = &FuncResult{Name: fn.RelString(L.SPkg.Pkg), Spec: fs, VC: vc}
	defer func() {
		if r := recover(); r != nil {
			if u, ok := r.(unsupported); ok {
				res.Err = u.msg
				res.Obls = nil
				return
			}
			panic(r)
		}
	}()
	if fs.Flags["trusted"] || fs.Flags["dataplane"] || fs.Flags["dependency"] {
		res.Trusted = true
		return
	}
	// type parameter instantiation: "typeparams T=uint32"
	for _, cl := range fs.Clauses {
		_ = cl
	}
	if tp := fs.typeParams(); tp != nil {
		vc.tsubst = map[*types.TypeParam]types.Type{}
		sig := fn.Signature
		lists := []*types.TypeParamList{sig.RecvTypeParams(), sig.TypeParams()}
		for _, l := range lists {
			if l == nil {
				continue
			}
			for i := 0; i < l.Len(); i++ {
				if tn, ok := tp[l.At(i).Obj().Name()]; ok {
					obj := types.Universe.Lookup(tn)
					if obj == nil {
						obj = L.SPkg.Pkg.Scope().Lookup(tn)
					}
					if obj == nil {
						unsup("unknown type %s in typeparams", tn)
					}
					vc.tsubst[l.At(i)] = obj.Type()
				}
			}
		}
	}
	st0 := &State{heaps: map[string]Term{}, roots: map[string][]string{}, cells: map[int]Val{}, epoch: 0}
	st0.nalloc = vc.declare("nalloc!0", SInt)
	vc.assume(Term{"(>= nalloc!0 0)", SBool})
	vc.rootBound["!e0"] = st0.nalloc

	var args []Val
	for i, p := range fn.Params {
		v := vc.freshVal("arg_"+p.Name(), p.Type())
		args = append(args, v)
		vc.assumeWFVal(st0, v, p.Type())
		if i == 0 && fn.Signature.Recv() != nil && v.T.Sort == SPtr {
			vc.assume(not(isNil(v.T)))
		}
	}
	fname := res.Name
	// requires
	for _, cl := range fs.Clauses {
		if cl.Kind == "requires" || cl.Kind == "assumes" {
			if cf := vc.clauseFn(cl); cf != nil {
				vc.assume(vc.evalSpec(cf, args, st0, st0).T)
			}
			if cl.Kind == "assumes" {
				vc.assumed[fmt.Sprintf("assumes clause of %s: %s", fname, cl.Text)] = true
			}
		}
	}
	vc.obls = append(vc.obls, &Obl{Name: fname + "#cover(requires)", Kind: "cover", Guard: tTrue, Goal: tTrue, NAss: len(vc.asserts), Cover: true})

	var bindings []Val
	for _, fv := range fn.FreeVars {
		b := vc.freshVal("free_"+fv.Name(), fv.Type())
		bindings = append(bindings, b)
	}
	exits := vc.execFunction(fn, args, bindings, st0, tTrue, st0, true)

	// panics clause
	var panT []Term
	hasPanics := false
	for _, cl := range fs.Clauses {
		if cl.Kind == "panics" {
			hasPanics = true
			if cf := vc.clauseFn(cl); cf != nil {
				panT = append(panT, vc.evalSpec(cf, args, st0, st0).T)
			}
		}
	}
	P := or(panT...)
	// exceptional exits
	seen := map[string]int{}
	for _, e := range vc.xexits {
		what := e.What
		if e.Pos.IsValid() {
			what = fmt.Sprintf("%s: %s", e.What, vc.srcLine(e.Pos))
		}
		// SSA temporaries in names are unstable; strip them
		what = stripTemps(what)
		seen[what]++
		if seen[what] > 1 {
			what = fmt.Sprintf("%s #%d", what, seen[what])
		}
		nb := len(vc.obls)
		// implicit run-time panics (bounds, nil, ...) must be unreachable; declared panics are the
		// explicit panic statements and the panics of callees
		implicit := !strings.HasPrefix(e.What, "panic")
		if fs.Flags["mayfault"] && implicit {
			// the function rejects a misuse by faulting (nil column, index out of range): the fault is
			// an accepted exit; what must hold is stated for the normal exits
		} else if fs.Flags["maypanic"] && !implicit {
			// the function rejects bad arguments by panicking; when it does so is not specified here
		} else if hasPanics && !implicit {
			vc.oblige("panics=>", fmt.Sprintf("%s#panics=>[%s]", fname, what), e.Cond, P, e.Pos)
		} else {
			vc.oblige("safety", fmt.Sprintf("%s#safe[%s]", fname, what), e.Cond, tFalse, e.Pos)
		}
		if e.NAss > 0 && (!hasPanics || implicit) {
			for _, o := range vc.obls[nb:] {
				o.NAss = e.NAss
			}
		}
		if implicit {
			continue // nothing to say about the state of an exit that is proved unreachable
		}
		if fs.Flags["xpure"] {
			if e.St.epoch != 0 {
				unsup("xpure cannot be checked after a callback havoc")
			}
			for _, h := range sortedKeys(boolKeys(e.St.heaps)) {
				pre := vc.preHeap(h, 0)
				fin := e.St.heaps[h]
				if fin.S == pre.S {
					continue
				}
				q := vc.freshConst("q_xframe", SPtr)
				_, vs := arrayParts(pre.Sort)
				visible := Term{fmt.Sprintf("(<= (alloc %s) nalloc!0)", q.S), SBool}
				vc.oblige("xframe", fmt.Sprintf("%s#xpure[%s]@[%s]", fname, h, what), and(e.Cond, visible), eq(sel(fin, q, vs), sel(pre, q, vs)), e.Pos)
			}
		}
		for k, cl := range fs.Clauses {
			if cl.Kind == "xensures" {
				if cf := vc.clauseFn(cl); cf != nil {
					r := vc.evalSpec(cf, args, e.St, st0)
					vc.obligeSplit("xpost", fmt.Sprintf("%s#xpost[%s]@[%s]", fname, clauseLabel(cl, k), what), e.Cond, r.T, cl)
				}
			}
		}
	}
	// normal exits: checked one by one when there are few, merged otherwise
	if len(exits) > 0 {
		groups := [][]Exit{exits}
		if len(exits) <= 4 {
			groups = nil
			for _, e := range exits {
				groups = append(groups, []Exit{e})
			}
		}
		for gi, g := range groups {
			suffix := ""
			if len(groups) > 1 {
				suffix = fmt.Sprintf("@exit%d[%s]", gi+1, vc.srcLine(g[0].Pos))
			}
			vc.checkExit(fs, fname, suffix, g, args, st0, hasPanics, P)
		}
	} else if !hasPanics {
		res.Err = "function has no normal exit"
	}
	res.Obls = vc.obls
	for a := range vc.assumed {
		res.Assumed = append(res.Assumed, a)
	}
	sort.Strings(res.Assumed)
	return res
}

func (vc *VC) isGhostHeap(h string) bool { return false }

// verifyLemma proves a lemma: its body holds for all values of its parameters in every
// well-typed state.
func verifyLemma(L *Loaded, d *SpecDecl) (res *FuncResult) {
	fn := L.SPkg.Func("__lemma_" + d.Name)
	res = &FuncResult{Name: "lemma " + d.Name, Spec: &FuncSpec{Target: "lemma " + d.Name, Serves: d.Serves}}
	if fn == nil {
		res.Err = "lemma function missing (stale)"
		return
	}
	vc := newVC(L, fn)
	res.VC = vc
	defer func() {
		if r := recover(); r != nil {
			if u, ok := r.(unsupported); ok {
				res.Err = u.msg
				res.Obls = nil
				return
			}
			panic(r)
		}
	}()
	st0 := &State{heaps: map[string]Term{}, roots: map[string][]string{}, cells: map[int]Val{}, epoch: 0}
	st0.nalloc = vc.declare("nalloc!0", SInt)
	vc.assume(Term{"(>= nalloc!0 0)", SBool})
	vc.rootBound["!e0"] = st0.nalloc
	var args []Val
	for _, p := range fn.Params {
		v := vc.freshVal("arg_"+p.Name(), p.Type())
		args = append(args, v)
		vc.assumeWFVal(st0, v, p.Type())
	}
	r := vc.evalSpec(fn, args, st0, st0)
	vc.obligeSplit("lemma", "lemma("+d.Name+")", tTrue, r.T, nil)
	res.Obls = vc.obls
	return res
}

func (vc *VC) checkExit(fs *FuncSpec, fname, suffix string, exits []Exit, args []Val, st0 *State, hasPanics bool, P Term) {
	var conds []Term
	var sts []*State
	for _, e := range exits {
		conds = append(conds, e.Cond)
		sts = append(sts, e.St)
	}
	cond := vc.name("exit", orFactor(conds))
	st := vc.mergeStates(conds, sts)
	var resList []Val
	nres := len(exits[0].Res)
	for k := 0; k < nres; k++ {
		var vs []Val
		for i := range exits {
			vs = append(vs, exits[i].Res[k])
		}
		v := vc.mergeVals(conds, vs)
		if v.Tup == nil {
			v.T = vc.name("result", v.T)
		}
		resList = append(resList, v)
	}
	full := append(append([]Val{}, args...), resList...)
	vc.obls = append(vc.obls, &Obl{Name: fname + "#cover(exit)" + suffix, Kind: "cover", Guard: cond, Goal: tTrue, NAss: len(vc.asserts), Cover: true, Group: fmt.Sprintf("%s@%d", fname, exits[0].Pos)})
	if hasPanics {
		vc.oblige("panics<=", fmt.Sprintf("%s#panics<=[normal exit]%s", fname, suffix), cond, not(P), 0)
	}
	for _, cl := range fs.Clauses {
		if cl.Kind == "ghost" {
			if cf := vc.clauseFn(cl); cf != nil {
				a := full
				if len(a) > len(cf.Params) {
					a = a[:len(cf.Params)]
				}
				st = vc.execGhost(cf, a, st, st0)
			}
		}
	}
	for k, cl := range fs.Clauses {
		// posttrusted: the postconditions stay assumptions of the callers (listed as trusted in the
		// evidence); the body is still checked for its loop invariants, assertions, callee
		// preconditions and safety, and for the ensures clauses whose label starts with "checked"
		if cl.Kind == "ensures" && (!fs.Flags["posttrusted"] || strings.HasPrefix(clauseLabel(cl, k), "checked")) {
			if cf := vc.clauseFn(cl); cf != nil {
				r := vc.evalSpec(cf, full, st, st0)
				// ensures clauses are proved in order; a later one may use the earlier ones
				vc.obligeAssumed("post", fmt.Sprintf("%s#post[%s]%s", fname, clauseLabel(cl, k), suffix), cond, r.T, cl)
				vc.assume(implies(cond, r.T))
			}
		}
	}
	// frame
	entries, has := vc.resolveModifies(fs, full, st0)
	if has && fs.Flags["callbackframe"] {
		vc.assumed["callback frame of "+fname+": its modifies clause is assumed, not checked (callbacks run under the world lock, C07)"] = true
		has = false
	}
	if has {
		if st.epoch != 0 {
			unsup("frame cannot be checked after a callback havoc")
		}
		var names []string
		for h := range st.heaps {
			names = append(names, h)
		}
		sort.Strings(names)
		for _, h := range names {
			pre := vc.preHeap(h, 0)
			fin := st.heaps[h]
			if fin.S == pre.S {
				continue
			}
			q := vc.freshConst("q_frame", SPtr)
			c, _ := notInMod(entries, h, q)
			_, vs := arrayParts(pre.Sort)
			// freshly allocated memory is not part of the caller-visible frame
			visible := Term{fmt.Sprintf("(<= (alloc %s) nalloc!0)", q.S), SBool}
			vc.oblige("frame", fmt.Sprintf("%s#frame[%s]%s", fname, h, suffix), and(cond, visible, c), eq(sel(fin, q, vs), sel(pre, q, vs)), 0)
			for _, e := range entries {
				if !e.isMap || e.mkey.S == "" {
					continue
				}
				for _, eh := range e.heap {
					if eh != h || strings.HasPrefix(h, "ML_") {
						continue
					}
					ks, es := arrayParts(vs)
					kq := vc.freshConst("k_frame", ks)
					vc.oblige("frame", fmt.Sprintf("%s#frame[%s other keys]%s", fname, h, suffix), and(cond, not(eq(kq, e.mkey))),
						eq(sel(sel(fin, e.key, vs), kq, es), sel(sel(pre, e.key, vs), kq, es)), 0)
				}
			}
		}
	}
}

func (fs *FuncSpec) typeParams() map[string]string {
	for _, c := range fs.Clauses {
		_ = c
	}
	if v, ok := fs.Flags["typeparams"]; ok && v {
		return fs.TP
	}
	return nil
}

func stripTemps(s string) string {
	// "bounds(t7[t9]): source" -> "bounds: source"
	if i := strings.Index(s, "("); i >= 0 {
		if j := strings.Index(s, "): "); j > i {
			return s[:i] + ": " + s[j+3:]
		}
		if strings.HasSuffix(s, ")") && !strings.Contains(s, ": ") {
			return s[:i]
		}
	}
	return s
}

// symbolsOf lists the declared constants occurring in a term.
func (vc *VC) symbolsOf(t string, out map[string]bool) {
	start := -1
	for i := 0; i <= len(t); i++ {
		var c byte = ' '
		if i < len(t) {
			c = t[i]
		}
		if c == ' ' || c == '(' || c == ')' {
			if start >= 0 {
				tok := t[start:i]
				if _, ok := vc.declared[tok]; ok {
					out[tok] = true
				}
				start = -1
			}
		} else if start < 0 {
			start = i
		}
	}
}

// isControl: path-condition constants do not make an assumption relevant by themselves.
func isControl(sym string) bool {
	return strings.HasPrefix(sym, "arg_") || strings.HasPrefix(sym, "reach!") || strings.HasPrefix(sym, "live!") || strings.HasPrefix(sym, "exit!") || strings.HasPrefix(sym, "panics!") || strings.HasPrefix(sym, "nalloc!")
}

func isHeapSym(s string) bool {
	return strings.HasPrefix(s, "H_") || strings.HasPrefix(s, "E_") || strings.HasPrefix(s, "MH_") || strings.HasPrefix(s, "MV_") || strings.HasPrefix(s, "ML_")
}

// relevant selects the assumptions in the cone of influence of the goal: definitions of
// symbols that are reached, and other assumptions that share a (non-control) symbol with what is
// reached, up to maxHops rounds (0 = until nothing changes). Dropping assumptions can only make
// a goal harder to prove, never wrongly provable.
func (vc *VC) relevant(o *Obl, maxHops int) []bool {
	n := o.NAss
	if vc.assSyms == nil {
		vc.assSyms = map[int]map[string]bool{}
		vc.assDef = map[int]string{}
	}
	for i := 0; i < n; i++ {
		if _, ok := vc.assSyms[i]; ok {
			continue
		}
		a := vc.asserts[i]
		m := map[string]bool{}
		vc.symbolsOf(a, m)
		vc.assSyms[i] = m
		if strings.HasPrefix(a, "(= ") {
			rest := a[3:]
			if j := strings.IndexByte(rest, ' '); j > 0 {
				if _, ok := vc.declared[rest[:j]]; ok {
					vc.assDef[i] = rest[:j]
				}
			}
		}
	}
	R := map[string]bool{}
	vc.symbolsOf(o.Guard.S, R)
	vc.symbolsOf(o.Goal.S, R)
	inc := make([]bool, n)
	// definitions are followed eagerly
	follow := func() {
		for changed := true; changed; {
			changed = false
			for i := 0; i < n; i++ {
				if inc[i] {
					continue
				}
				if d, isDef := vc.assDef[i]; isDef && R[d] {
					inc[i] = true
					changed = true
					for s := range vc.assSyms[i] {
						R[s] = true
					}
				}
			}
		}
	}
	follow()
	for hop := 0; maxHops == 0 || hop < maxHops; hop++ {
		var add []int
		for i := 0; i < n; i++ {
			if inc[i] {
				continue
			}
			if _, isDef := vc.assDef[i]; isDef {
				continue
			}
			syms := vc.assSyms[i]
			hit := false
			heapSyms := 0
			for s := range syms {
				if !isHeapSym(s) {
					continue
				}
				heapSyms++
				if R[s] {
					hit = true
					break
				}
			}
			if !hit && heapSyms == 0 {
				// no heap at all: a fact about values; relevant when it shares a value symbol
				for s := range syms {
					if (!isControl(s) || strings.HasPrefix(s, "arg_")) && R[s] {
						hit = true
						break
					}
				}
				if len(syms) == 0 {
					hit = true
				}
			}
			if hit {
				add = append(add, i)
			}
		}
		if len(add) == 0 {
			break
		}
		grew := false
		for _, i := range add {
			inc[i] = true
			for s := range vc.assSyms[i] {
				if !R[s] {
					R[s] = true
					grew = true
				}
			}
		}
		follow()
		if !grew {
			break
		}
	}
	return inc
}

// script renders the SMT-LIB script of an obligation.
func (vc *VC) script(o *Obl, hops int) string {
	var sb strings.Builder
	sb.WriteString(smtPrelude)

	for _, d := range vc.S.decls {
		sb.WriteString(d)
		sb.WriteByte('\n')
	}
	for _, d := range vc.decls {
		sb.WriteString(d)
		sb.WriteByte('\n')
	}
	var inc []bool
	if hops >= 0 {
		inc = vc.relevant(o, hops)
	}
	for i, a := range vc.asserts[:o.NAss] {
		if inc != nil && !inc[i] {
			continue
		}
		sb.WriteString("(assert ")
		sb.WriteString(a)
		sb.WriteString(")\n")
	}
	sb.WriteString("(assert ")
	sb.WriteString(o.Guard.S)
	sb.WriteString(")\n")
	if !o.Cover {
		sb.WriteString("(assert (not ")
		sb.WriteString(o.Goal.S)
		sb.WriteString("))\n")
	}
	sb.WriteString("(check-sat)\n")
	return sb.String()
}
