package main

import (
	"fmt"
	"go/token"
	"go/types"
	"sort"
	"strings"

	"golang.org/x/tools/go/ssa"
)

const maxInlineDepth = 6

func (vc *VC) pkgFuncName(f *ssa.Function) string {
	if f.Origin() != nil {
		return f.Origin().RelString(vc.L.SPkg.Pkg)
	}
	return f.RelString(vc.L.SPkg.Pkg)
}

func (vc *VC) contractOf(f *ssa.Function) *FuncSpec {
	if fs, ok := vc.L.Con.Funcs[f.RelString(vc.L.SPkg.Pkg)]; ok && !fs.Flags["stale"] {
		return fs
	}
	if fs, ok := vc.L.Con.Funcs[vc.pkgFuncName(f)]; ok && !fs.Flags["stale"] {
		return fs
	}
	return nil
}

func (vc *VC) inPkg(f *ssa.Function) bool {
	if f.Origin() != nil {
		f = f.Origin()
	}
	return f.Pkg == vc.L.SPkg
}

func isSpecHelper(name string) bool {
	return name == "__forall" || name == "__exists" || name == "__old" || name == "__trigger" || name == "__has" || name == "__get" || name == "__same" || name == "__fresh" || name == "__disjoint" || name == "__samearray" || name == "__unchanged"
}

func (vc *VC) isSpecDecl(name string) *SpecDecl {
	for _, d := range vc.L.Con.Decls {
		if d.Name == name {
			return d
		}
	}
	return nil
}

func (fr *Frame) call(t *ssa.Call) {
	c := t.Common()
	if c.IsInvoke() {
		fr.vals[t] = fr.externCall("iface."+c.Method.Name(), append([]ssa.Value{c.Value}, c.Args...), t.Type(), true)
		return
	}
	switch callee := c.Value.(type) {
	case *ssa.Builtin:
		fr.builtin(t, callee)
		return
	case *ssa.Function:
		fr.staticCall(t, callee, nil)
		return
	case *ssa.MakeClosure:
		v := fr.val(callee)
		fr.staticCall(t, v.Clo.fn, v.Clo.bindings)
		return
	}
	// dynamic call through a function value
	fv := fr.val(c.Value)
	if fv.Clo != nil {
		fr.staticCall(t, fv.Clo.fn, fv.Clo.bindings)
		return
	}
	fr.dynamicCall(t, fv)
}

func (fr *Frame) evalArgs(args []ssa.Value) []Val {
	var out []Val
	for _, a := range args {
		v := fr.val(a)
		if v.Cell != nil {
			if _, isPtr := fr.vc.rt(a.Type()).Underlying().(*types.Pointer); isPtr {
				v = fr.materialize(v, a.Type())
			}
		}
		out = append(out, v)
	}
	return out
}

// runAsserts checks and then assumes the "assert <where>" clauses of the function under proof.
func (fr *Frame) runAsserts(where string, pos token.Pos, callArgs ...Val) {
	vc := fr.vc
	if fr.spec == nil || vc.spec != 0 {
		return
	}
	for k, cl := range fr.spec.Clauses {
		if cl.Kind != "assert" || cl.Callee != where {
			continue
		}
		cf := vc.clauseFn(cl)
		if cf == nil {
			continue
		}
		var aargs []Val
		seenA := map[string]bool{}
		for _, v := range vc.L.AssertVars[cl.FuncName] {
			if seenA[v.Name] || v.Name == "_" {
				continue
			}
			seenA[v.Name] = true
			x, ok := fr.resolveVarAt(fr.cur, v)
			if !ok {
				x = Val{T: vc.freshConst("unresolved_"+v.Name, vc.sortOf(v.Type))}
			}
			aargs = append(aargs, x)
		}
		if cl.NArgs > 0 {
			// positional arguments of the call (a method call's receiver comes first in SSA: skip it)
			off := len(callArgs) - cl.NArgs
			if off < 0 {
				continue
			}
			aargs = append(aargs, callArgs[off:]...)
		}
		r := vc.evalSpec(cf, aargs, fr.st, fr.old)
		vc.obligeAssumed("assert", fmt.Sprintf("%s#assert[%s]@%s", fr.fname(), clauseLabel(cl, k), vc.srcLine(pos)), fr.live, r.T, cl)
		vc.assume(implies(fr.live, r.T))
	}
}

func (fr *Frame) staticCall(t *ssa.Call, callee *ssa.Function, bindings []Val) {
	vc := fr.vc
	name := callee.Name()
	args := fr.evalArgs(t.Common().Args)
	if fr.isTop {
		fr.runAsserts(name, t.Pos(), args...)
	}
	if callee.Origin() != nil {
		name = callee.Origin().Name()
	}
	if vc.inPkg(callee) {
		switch {
		case name == "__old":
			if fr.old == nil {
				unsup("old() without an old state")
			}
			fr.vals[t] = fr.evalOld(t.Common().Args[0])
			return
		case name == "__forall" || name == "__exists":
			fr.vals[t] = Val{T: fr.quantifier(name == "__forall", args[0])}
			return
		case name == "__trigger":
			// the arguments arrive packed in a []any built from MakeInterface values
			var pats []string
			if sl, ok := t.Common().Args[0].(*ssa.Slice); ok {
				if alloc, ok := sl.X.(*ssa.Alloc); ok {
					for _, r := range *alloc.Referrers() {
						if ia, ok := r.(*ssa.IndexAddr); ok {
							for _, rr := range *ia.Referrers() {
								if st, ok := rr.(*ssa.Store); ok {
									if mi, ok := st.Val.(*ssa.MakeInterface); ok {
										pats = append(pats, fr.val(mi.X).T.S)
									}
								}
							}
						}
					}
				}
			}
			if len(pats) > 0 && len(vc.trigStack) > 0 {
				top := len(vc.trigStack) - 1
				vc.trigStack[top] = append(vc.trigStack[top], "("+strings.Join(pats, " ")+")")
			}
			fr.vals[t] = Val{T: tTrue}
			return
		case name == "__fresh":
			// allocated during the call: not reachable from the pre-state
			if fr.old == nil {
				unsup("__fresh without an old state")
			}
			x := args[0].T
			if mi, ok := t.Common().Args[0].(*ssa.MakeInterface); ok {
				x = fr.val(mi.X).T
			}
			p := x
			if x.Sort == SSlice {
				p = sptr(x)
			}
			fr.vals[t] = Val{T: Term{fmt.Sprintf("(> (alloc %s) %s)", p.S, fr.old.nalloc.S), SBool}}
			return
		case name == "__disjoint":
			// two slices whose backing arrays are different allocations (or one of them is nil)
			a, b := args[0].T, args[1].T
			fr.vals[t] = Val{T: Term{fmt.Sprintf("(or (= (alloc %[1]s) 0) (= (alloc %[2]s) 0) (not (= (alloc %[1]s) (alloc %[2]s))))", sptr(a).S, sptr(b).S), SBool}}
			return
		case name == "__unchanged":
			// every modelled heap equals the entry heap (used as "!found ==> __unchanged()" in loops
			// whose callbacks havoc everything)
			if fr.st.epoch == 0 {
				var eqs []Term
				for _, h := range sortedKeys(boolKeysT(fr.st.heaps)) {
					cur, pre := fr.st.heaps[h], vc.preHeap(h, 0)
					if cur.S != pre.S {
						eqs = append(eqs, eq(cur, pre))
					}
				}
				fr.vals[t] = Val{T: and(eqs...)}
				return
			}
			if us := vc.epochEq[fr.st.epoch]; len(us) > 0 {
				// later in the same epoch (e.g. at the back edge of the loop whose head made the
				// assumption): unchanged iff one of the registered conditions holds and what was
				// written since equals the entry heap again
				var ors []Term
				for _, x := range us {
					ors = append(ors, Term{x, SBool})
				}
				conj := []Term{or(ors...)}
				for _, h := range sortedKeys(boolKeysT(fr.st.heaps)) {
					cur := fr.st.heaps[h]
					if cur.S != vc.preHeap(h, fr.st.epoch).S {
						conj = append(conj, eq(cur, vc.preHeap(h, 0)))
					}
				}
				fr.vals[t] = Val{T: and(conj...)}
				return
			}
			u := vc.freshConst("unchanged", SBool)
			if vc.epochEq == nil {
				vc.epochEq = map[int][]string{}
			}
			vc.epochEq[fr.st.epoch] = append(vc.epochEq[fr.st.epoch], u.S)
			suffix := fmt.Sprintf("!e%d", fr.st.epoch)
			for _, d := range sortedKeys(strKeys(vc.declared)) {
				if strings.HasSuffix(d, suffix) {
					base := strings.TrimSuffix(d, suffix)
					if _, isHeap := vc.heapSort[base]; isHeap {
						vc.asserts = append(vc.asserts, fmt.Sprintf("(=> %s (= %s %s))", u.S, d, vc.preHeap(base, 0).S))
					}
				}
			}
			// heaps already modified in this epoch cannot be claimed unchanged
			if len(fr.st.heaps) > 0 {
				fr.vals[t] = Val{T: tFalse}
				return
			}
			fr.vals[t] = Val{T: u}
			return
		case name == "__samearray":
			// two slices backed by the same allocation
			a, b := args[0].T, args[1].T
			fr.vals[t] = Val{T: Term{fmt.Sprintf("(= (alloc %s) (alloc %s))", sptr(a).S, sptr(b).S), SBool}}
			return
		case name == "__same":
			fr.vals[t] = Val{T: eq(args[0].T, args[1].T)}
			return
		case name == "__has":
			mt := vc.rt(t.Common().Args[0].Type()).Underlying().(*types.Map)
			has, _, _, _, _ := vc.mapHeaps(mt)
			m := args[0].T
			fr.vals[t] = Val{T: and(not(isNil(m)), sel(vc.heapRead(fr.st, has, m), args[1].T, SBool))}
			return
		case name == "__get":
			// the stored value of a key that is present (unspecified for a missing key): a plain
			// select, usable in triggers
			mt := vc.rt(t.Common().Args[0].Type()).Underlying().(*types.Map)
			_, val, _, _, vs := vc.mapHeaps(mt)
			m := args[0].T
			fr.vals[t] = Val{T: sel(vc.heapRead(fr.st, val, m), args[1].T, vs)}
			return
		}
		if d := vc.isSpecDecl(name); d != nil && callee.Signature.Recv() == nil {
			if d.Kind == "ghost" {
				fr.vals[t] = vc.ghostAccess(d, args)
				return
			}
			fr.vals[t] = vc.evalSpecFn(callee, args, nil, fr.st, fr.old)
			return
		}
		if fs := vc.contractOf(callee); fs != nil && !fs.Flags["inline"] && (vc.spec == 0) {
			fr.contractCall(t, callee, fs, args)
			return
		}
		// inline
		body := callee
		var saved map[*types.TypeParam]types.Type
		restore := false
		if callee.Origin() != nil && len(callee.Blocks) == 0 {
			body = callee.Origin()
			saved = vc.tsubst
			vc.tsubst = instSubst(callee, saved)
			restore = true
		}
		if len(body.Blocks) == 0 {
			if restore {
				vc.tsubst = saved
			}
			fr.vals[t] = fr.externCall(vc.pkgFuncName(callee), t.Common().Args, t.Type(), false)
			return
		}
		if vc.depth >= maxInlineDepth {
			unsup("inline depth exceeded at %s", name)
		}
		if hasLoops(body) {
			unsup("call of %s: function with loops has no contract", vc.pkgFuncName(callee))
		}
		vc.depth++
		exits := vc.execFunction(body, args, bindings, fr.st, fr.live, fr.old, false)
		vc.depth--
		if restore {
			vc.tsubst = saved
		}
		fr.mergeExits(t, exits)
		return
	}
	// other packages
	fr.vals[t] = fr.externCall(callee.String(), t.Common().Args, t.Type(), false)
}

func instSubst(inst *ssa.Function, outer map[*types.TypeParam]types.Type) map[*types.TypeParam]types.Type {
	m := map[*types.TypeParam]types.Type{}
	for k, v := range outer {
		m[k] = v
	}
	org := inst.Origin()
	targs := inst.TypeArgs()
	var tps []*types.TypeParam
	sig := org.Signature
	if sig.RecvTypeParams() != nil {
		for i := 0; i < sig.RecvTypeParams().Len(); i++ {
			tps = append(tps, sig.RecvTypeParams().At(i))
		}
	}
	if sig.TypeParams() != nil {
		for i := 0; i < sig.TypeParams().Len(); i++ {
			tps = append(tps, sig.TypeParams().At(i))
		}
	}
	for i, tp := range tps {
		if i < len(targs) {
			ta := targs[i]
			if outer != nil {
				ta = substType(ta, outer)
			}
			m[tp] = ta
		}
	}
	return m
}

// mergeExits joins the normal exits of an inlined callee into the caller's frame.
func (fr *Frame) mergeExits(t *ssa.Call, exits []Exit) {
	vc := fr.vc
	if len(exits) == 0 {
		fr.live = tFalse
		fr.vals[t] = vc.freshVal(t.Name(), t.Type())
		return
	}
	var conds []Term
	var sts []*State
	for _, e := range exits {
		conds = append(conds, e.Cond)
		sts = append(sts, e.St)
	}
	fr.live = vc.name("live", orFactor(conds))
	fr.st = vc.mergeStates(conds, sts)
	nres := len(exits[0].Res)
	if nres == 0 {
		fr.vals[t] = Val{}
		return
	}
	res := make([]Val, nres)
	for k := 0; k < nres; k++ {
		var vs []Val
		var cs []Term
		for i := range exits {
			vs = append(vs, exits[i].Res[k])
			cs = append(cs, relCond(conds[i], fr.live))
		}
		v := vc.mergeVals(cs, vs)
		if v.Tup == nil && v.Cell == nil {
			v.T = vc.name(t.Name(), v.T)
		}
		res[k] = v
	}
	if nres == 1 {
		fr.vals[t] = res[0]
	} else {
		fr.vals[t] = Val{Tup: res}
	}
}

// ---- spec evaluation ------------------------------------------------------------------------

// evalSpecFn runs a specification function (pure) and returns its merged result.
func (vc *VC) evalSpecFn(fn *ssa.Function, args []Val, bindings []Val, st *State, old *State) Val {
	vc.spec++
	defer func() { vc.spec-- }()
	saveX := len(vc.xexits)
	exits := vc.execFunction(fn, args, bindings, st.clone(), tTrue, old, false)
	vc.xexits = vc.xexits[:saveX]
	if len(exits) == 0 {
		unsup("specification function %s has no normal exit", fn.Name())
	}
	nres := len(exits[0].Res)
	if nres == 0 {
		return Val{}
	}
	res := make([]Val, nres)
	for k := 0; k < nres; k++ {
		var vs []Val
		var cs []Term
		for i := range exits {
			vs = append(vs, exits[i].Res[k])
			cs = append(cs, exits[i].Cond)
		}
		res[k] = vc.mergeVals(cs, vs)
	}
	if nres == 1 {
		return res[0]
	}
	return Val{Tup: res}
}

func (vc *VC) evalSpec(fn *ssa.Function, args []Val, st *State, old *State) Val {
	if len(args) > len(fn.Params) {
		args = args[:len(fn.Params)]
	}
	return vc.evalSpecFn(fn, args, nil, st, old)
}

// execGhost runs a ghost clause (assignments to ghost maps) and returns the updated state.
func (vc *VC) execGhost(fn *ssa.Function, args []Val, st *State, old *State) *State {
	vc.spec++
	saveX := len(vc.xexits)
	exits := vc.execFunction(fn, args, nil, st.clone(), tTrue, old, false)
	vc.xexits = vc.xexits[:saveX]
	if len(exits) == 0 {
		vc.spec--
		unsup("ghost clause without exit")
	}
	var conds []Term
	var sts []*State
	for _, e := range exits {
		conds = append(conds, e.Cond)
		sts = append(sts, e.St)
	}
	out := vc.mergeStates(conds, sts)
	vc.spec--
	for _, h := range sortedKeys(boolKeys(out.heaps)) {
		out.heaps[h] = vc.name(h, out.heaps[h])
	}
	return out
}

func boolKeys(m map[string]Term) map[string]bool {
	r := map[string]bool{}
	for k := range m {
		r[k] = true
	}
	return r
}

func (vc *VC) ghostAccess(d *SpecDecl, args []Val) Val {
	k, ok := vc.ghostIdx[d.Name]
	if !ok {
		k = 1000 + len(vc.ghostIdx)
		// stable numbering by declaration order
		for i, dd := range vc.L.Con.Decls {
			if dd == d {
				k = 1000 + i
			}
		}
		vc.ghostIdx[d.Name] = k
	}
	if len(args) == 0 {
		return Val{T: Term{fmt.Sprintf("(mkptr (- %d) PNil)", k), SPtr}, Ghost: true}
	}
	if args[0].T.Sort != SPtr {
		unsup("ghost function %s must take a pointer first", d.Name)
	}
	return Val{T: fieldPtr(args[0].T, k), Ghost: true}
}

// evalOld re-evaluates the expression DAG of v in the old state.
func (fr *Frame) evalOld(v ssa.Value) Val {
	sh := &Frame{vc: fr.vc, fn: fr.fn, vals: map[ssa.Value]Val{}, st: fr.old, live: tTrue, old: fr.old, bindings: fr.bindings, mapIter: map[ssa.Value]*mapIterState{}, cellOf: map[*ssa.Alloc]int{}}
	var ev func(x ssa.Value) Val
	ev = func(x ssa.Value) Val {
		if r, ok := sh.vals[x]; ok {
			return r
		}
		switch i := x.(type) {
		case *ssa.Parameter, *ssa.Const, *ssa.Global, *ssa.Function, *ssa.FreeVar:
			return fr.val(x)
		case *ssa.Phi:
			// values that do not depend on the heap may be reused
			if pv, ok := fr.vals[x]; ok && !strings.Contains(pv.T.S, "_H_") {
				return pv
			}
			unsup("old(): control flow inside old() — wrap the expression in a pred")
		case ssa.Instruction:
			// evaluate operands first
			for _, op := range i.Operands(nil) {
				if *op == nil {
					continue
				}
				if _, isB := (*op).(*ssa.Builtin); isB {
					continue
				}
				if _, done := sh.vals[*op]; !done {
					r := ev(*op)
					sh.vals[*op] = r
				}
			}
			if _, ok := i.(*ssa.Alloc); ok {
				// captured cell: take the current binding
				return fr.val(x)
			}
			sh.st = fr.old.clone()
			for k, v := range fr.st.cells {
				sh.st.cells[k] = v // locals are not part of the old heap: use their current values
			}
			fr.vc.spec++
			sh.execInstr(i)
			fr.vc.spec--
			return sh.vals[x]
		}
		unsup("old(): cannot re-evaluate %T", x)
		return Val{}
	}
	return ev(v)
}

func (fr *Frame) quantifier(forall bool, clo Val) Term {
	vc := fr.vc
	if clo.Clo == nil {
		unsup("quantifier needs a function literal")
	}
	fn := clo.Clo.fn
	var bound []string
	var args []Val
	for _, p := range fn.Params {
		srt := vc.sortOf(p.Type())
		vc.nfresh++
		n := fmt.Sprintf("q_%s!%d", sanitize(p.Name()), vc.nfresh)
		bound = append(bound, fmt.Sprintf("(%s %s)", n, srt))
		args = append(args, Val{T: Term{n, srt}})
	}
	vc.qdepth++
	vc.trigStack = append(vc.trigStack, nil)
	body := vc.evalSpecFn(fn, args, clo.Clo.bindings, fr.st, fr.old)
	trigs := vc.trigStack[len(vc.trigStack)-1]
	vc.trigStack = vc.trigStack[:len(vc.trigStack)-1]
	vc.qdepth--
	// a single 8-bit bound variable ranges over 256 values: expand into a finite conjunction or
	// disjunction (the instances fold to small bit tests, which the solvers decide at once)
	if len(fn.Params) == 1 && args[0].T.Sort == bvSort(8) && vc.qdepth == 0 && !strings.Contains(body.T.S, "(forall ") && !strings.Contains(body.T.S, "(exists ") && !underSelect(body.T.S, args[0].T.S) {
		name := args[0].T.S
		hb, binds := vc.hoistInvariant(body.T.S, name)
		if len(hb) < 1500 {
			var sb strings.Builder
			if forall {
				sb.WriteString("(=> true (and")
			} else {
				sb.WriteString("(or false")
			}
			for k := 0; k < 256; k++ {
				sb.WriteByte(' ')
				sb.WriteString(replaceSym(hb, name, fmt.Sprintf("(_ bv%d 8)", k)))
			}
			if forall {
				sb.WriteString("))")
			} else {
				sb.WriteString(")")
			}
			t := sb.String()
			for i := len(binds) - 1; i >= 0; i-- {
				t = "(let (" + binds[i] + ") " + t + ")"
			}
			return Term{t, SBool}
		}
	}
	q := "forall"
	if !forall {
		q = "exists"
	}
	// the solvers reject patterns that contain logical connectives or ite (e.g. a map read)
	var okTrigs []string
	for _, p := range trigs {
		if strings.Contains(p, "(ite ") || strings.Contains(p, "(and ") || strings.Contains(p, "(not ") || strings.Contains(p, "(or ") || strings.Contains(p, "(=> ") {
			continue
		}
		okTrigs = append(okTrigs, p)
	}
	trigs = okTrigs
	if len(trigs) > 0 {
		var sb strings.Builder
		for _, p := range trigs {
			sb.WriteString(" :pattern ")
			sb.WriteString(p)
		}
		return Term{fmt.Sprintf("(%s (%s) (! %s%s))", q, strings.Join(bound, " "), body.T.S, sb.String()), SBool}
	}
	return Term{fmt.Sprintf("(%s (%s) %s)", q, strings.Join(bound, " "), body.T.S), SBool}
}

// hoistInvariant replaces the maximal compound subterms of body that do not mention sym by
// let-bound names, so that instantiating sym 256 times stays small.
func (vc *VC) hoistInvariant(body, sym string) (string, []string) {
	type node struct {
		start, end int
		has        bool
		kids       []*node
		atom       bool
	}
	var parse func(i int) (*node, int)
	parse = func(i int) (*node, int) {
		for i < len(body) && body[i] == ' ' {
			i++
		}
		if body[i] == '(' {
			n := &node{start: i}
			i++
			for {
				for i < len(body) && body[i] == ' ' {
					i++
				}
				if body[i] == ')' {
					n.end = i + 1
					return n, i + 1
				}
				k, j := parse(i)
				n.kids = append(n.kids, k)
				if k.has {
					n.has = true
				}
				i = j
			}
		}
		j := i
		for j < len(body) && body[j] != ' ' && body[j] != ')' && body[j] != '(' {
			j++
		}
		return &node{start: i, end: j, atom: true, has: body[i:j] == sym}, j
	}
	root, _ := parse(0)
	names := map[string]string{}
	var binds []string
	var out strings.Builder
	var emit func(n *node)
	emit = func(n *node) {
		if n.atom {
			out.WriteString(body[n.start:n.end])
			return
		}
		txt := body[n.start:n.end]
		// never hoist the operator position or indexed identifiers like (_ bv1 8) / (_ extract 7 0)
		if !n.has && len(txt) >= 40 && !strings.HasPrefix(txt, "(_ ") {
			nm, ok := names[txt]
			if !ok {
				vc.nfresh++
				nm = fmt.Sprintf("h!%d", vc.nfresh)
				names[txt] = nm
				binds = append(binds, fmt.Sprintf("(%s %s)", nm, txt))
			}
			out.WriteString(nm)
			return
		}
		out.WriteByte('(')
		for i, k := range n.kids {
			if i > 0 {
				out.WriteByte(' ')
			}
			// operator in head position such as ((_ zero_extend 56) x): emit verbatim
			if i == 0 && !k.atom {
				out.WriteString(body[k.start:k.end])
				continue
			}
			emit(k)
		}
		out.WriteByte(')')
	}
	emit(root)
	return out.String(), binds
}

// underSelect reports whether sym occurs inside the arguments of a select or store.
func underSelect(s, sym string) bool {
	var ops []string
	i := 0
	for i < len(s) {
		switch s[i] {
		case '(':
			j := i + 1
			for j < len(s) && s[j] != ' ' && s[j] != ')' && s[j] != '(' {
				j++
			}
			ops = append(ops, s[i+1:j])
			i = j
		case ')':
			if len(ops) > 0 {
				ops = ops[:len(ops)-1]
			}
			i++
		case ' ':
			i++
		default:
			j := i
			for j < len(s) && s[j] != ' ' && s[j] != ')' && s[j] != '(' {
				j++
			}
			if s[i:j] == sym {
				for _, o := range ops {
					if o == "select" || o == "store" {
						return true
					}
				}
			}
			i = j
		}
	}
	return false
}

func joinTerms(ts []Term) string {
	var sb strings.Builder
	for i, t := range ts {
		if i > 0 {
			sb.WriteByte(' ')
		}
		sb.WriteString(t.S)
	}
	return sb.String()
}

// replaceSym replaces whole-token occurrences of sym in an SMT term.
func replaceSym(s, sym, by string) string {
	var sb strings.Builder
	i := 0
	for i < len(s) {
		j := strings.Index(s[i:], sym)
		if j < 0 {
			sb.WriteString(s[i:])
			break
		}
		j += i
		end := j + len(sym)
		okL := j == 0 || s[j-1] == ' ' || s[j-1] == '('
		okR := end == len(s) || s[end] == ' ' || s[end] == ')'
		sb.WriteString(s[i:j])
		if okL && okR {
			sb.WriteString(by)
		} else {
			sb.WriteString(sym)
		}
		i = end
	}
	return sb.String()
}

// ---- contract calls -------------------------------------------------------------------------

func (vc *VC) clauseFn(cl *Clause) *ssa.Function {
	if staleFuncs[cl.FuncName] {
		return nil
	}
	return vc.L.SPkg.Func(cl.FuncName)
}

func (fr *Frame) contractCall(t *ssa.Call, callee *ssa.Function, fs *FuncSpec, args []Val) {
	vc := fr.vc
	cname := vc.pkgFuncName(callee)
	site := fmt.Sprintf("%s#pre(%s)", fr.fname(), cname)
	var saved map[*types.TypeParam]types.Type
	if _, inst := vc.L.Con.Funcs[callee.RelString(vc.L.SPkg.Pkg)]; callee.Origin() != nil && !inst {
		saved = vc.tsubst
		vc.tsubst = instSubst(callee, saved)
		defer func() { vc.tsubst = saved }()
	}
	pre := fr.st
	// receiver non-nil
	if callee.Signature.Recv() != nil && len(args) > 0 && args[0].T.Sort == SPtr {
		fr.checkNonNil(t.Common().Args[0], args[0].T, t.Pos())
	}
	// 1. preconditions
	for k, cl := range fs.Clauses {
		if cl.Kind != "requires" {
			continue
		}
		cf := vc.clauseFn(cl)
		if cf == nil {
			continue
		}
		r := vc.evalSpec(cf, args, pre, pre)
		if vc.spec == 0 {
			vc.obligeAssumed("pre", fmt.Sprintf("%s[%s]@%s", site, clauseLabel(cl, k), vc.srcLine(t.Pos())), fr.live, r.T, cl)
		}
		vc.assume(implies(fr.live, r.T))
	}
	// 2. panics
	var pan []Term
	hasPanics := false
	for _, cl := range fs.Clauses {
		if cl.Kind == "panics" {
			hasPanics = true
			if cf := vc.clauseFn(cl); cf != nil {
				pan = append(pan, vc.evalSpec(cf, args, pre, pre).T)
			}
		}
	}
	// 3. havoc
	post := pre.clone()
	vc.applyModifies(callee, fs, args, pre, post)
	var res Val
	rt := callee.Signature.Results()
	var resList []Val
	switch rt.Len() {
	case 0:
	case 1:
		res = vc.freshVal(t.Name(), rt.At(0).Type())
		resList = []Val{res}
		vc.assumeWFVal(post, res, rt.At(0).Type())
	default:
		res = vc.freshVal(t.Name(), rt)
		resList = res.Tup
		vc.assumeWFVal(post, res, rt)
	}
	if hasPanics {
		pc := vc.name("panics", or(pan...))
		if vc.spec == 0 {
			xst := post.clone()
			if fs.Flags["xpure"] {
				xst = pre.clone()
			}
			for _, cl := range fs.Clauses {
				if cl.Kind == "xensures" {
					if cf := vc.clauseFn(cl); cf != nil {
						r := vc.evalSpec(cf, args, xst, pre)
						vc.assume(implies(and(fr.live, pc), r.T))
					}
				}
			}
			vc.xexits = append(vc.xexits, Exit{Cond: and(fr.live, pc), St: xst, What: "panic in " + cname, Pos: t.Pos(), NAss: len(vc.asserts)})
		}
		fr.live = vc.name("live", and(fr.live, not(pc)))
	}
	// 4. postconditions
	full := append(append([]Val{}, args...), resList...)
	for _, cl := range fs.Clauses {
		if cl.Kind != "ensures" {
			continue
		}
		cf := vc.clauseFn(cl)
		if cf == nil {
			continue
		}
		r := vc.evalSpec(cf, full, post, pre)
		vc.assume(implies(fr.live, r.T))
	}
	fr.st = post
	fr.vals[t] = res
}

func (vc *VC) srcLine(pos token.Pos) string {
	if !pos.IsValid() {
		return "?"
	}
	p := vc.L.Fset.Position(pos)
	return lineText(p.Filename, p.Line)
}

// modEntry is one entry of a modifies clause resolved at a call site or at function entry.
type modEntry struct {
	kind string // addr | index | all | range
	heap []string
	key  Term // pointer key (addr/index on slices) or map pointer
	mkey Term // map key for map index
	base Term // slice base pointer for all/range
	lo   Term
	hi   Term
	isMap bool
	mt   *types.Map
	typ  types.Type // type stored at the address
}

// resolveModifies evaluates the modifies clause functions into entries.
func (vc *VC) resolveModifies(fs *FuncSpec, args []Val, st *State) ([]modEntry, bool) {
	var out []modEntry
	found := false
	for _, cl := range fs.Clauses {
		if cl.Kind != "modifies" {
			continue
		}
		found = true
		cf := vc.clauseFn(cl)
		if cf == nil {
			continue
		}
		out = append(out, vc.evalModifiesFn(cf, args, st)...)
	}
	return out, found
}

// evalModifiesFn interprets the generated function "r = append(r, kind, any(x)...)" by running it
// in spec mode while intercepting the appends.
func (vc *VC) evalModifiesFn(cf *ssa.Function, args []Val, st *State) []modEntry {
	vc.spec++
	defer func() { vc.spec-- }()
	vc.modCapture = &[]modCapture{}
	defer func() { vc.modCapture = nil }()
	if len(args) > len(cf.Params) {
		args = args[:len(cf.Params)]
	}
	for len(args) < len(cf.Params) {
		p := cf.Params[len(args)]
		args = append(args, vc.freshVal("unknown_"+p.Name(), p.Type()))
	}
	saveX := len(vc.xexits)
	vc.execFunction(cf, args, nil, st.clone(), tTrue, st, false)
	vc.xexits = vc.xexits[:saveX]
	var out []modEntry
	for _, c := range *vc.modCapture {
		e := modEntry{kind: c.kind}
		switch c.kind {
		case "addr":
			p := c.vals[0]
			pt := vc.rt(c.types[0]).Underlying().(*types.Pointer).Elem()
			e.key, e.typ = p.T, pt
			if c.fieldOf != nil {
				e.heap = []string{c.fieldHeap}
				e.key = c.fieldOf.T
			} else {
				hs := map[string]bool{}
				vc.heapsOfType(pt, hs)
				e.heap = sortedKeys(hs)
			}
		case "allfield":
			bt := vc.rt(c.types[0])
			sl, ok := bt.Underlying().(*types.Slice)
			if !ok {
				unsup("modifies x[*].f: x is not a slice")
			}
			// walk the field path
			cur := sl.Elem()
			var heapsOf []string
			path := strings.Split(c.fieldPath, ".")
			for pi, fname := range path {
				st, ok := types.Unalias(vc.rt(cur)).Underlying().(*types.Struct)
				if !ok {
					unsup("modifies x[*].%s: not a struct", c.fieldPath)
				}
				found := false
				for fi := 0; fi < st.NumFields(); fi++ {
					if st.Field(fi).Name() != fname {
						continue
					}
					found = true
					ft := st.Field(fi).Type()
					if pi == len(path)-1 {
						if isStruct(vc.rt(ft)) {
							hs := map[string]bool{}
							vc.heapsOfType(ft, hs)
							heapsOf = sortedKeys(hs)
						} else {
							h := vc.heapNameField(cur, fi)
							vc.heapDecl(h, vc.sortOf(ft))
							heapsOf = []string{h}
						}
					}
					cur = ft
				}
				if !found {
					unsup("modifies x[*].%s: no field %s", c.fieldPath, fname)
				}
			}
			e.kind = "range"
			e.heap = heapsOf
			e.base = sptr(c.vals[0].T)
			e.lo, e.hi = bvLit(0, 64), slen(c.vals[0].T)
			e.typ = sl.Elem()
		case "index", "all", "range":
			bt := vc.rt(c.types[0])
			switch u := bt.Underlying().(type) {
			case *types.Slice:
				hs := map[string]bool{}
				vc.heapsOfType(u.Elem(), hs)
				e.heap = sortedKeys(hs)
				e.base = sptr(c.vals[0].T)
				e.typ = u.Elem()
				switch c.kind {
				case "index":
					e.kind = "addr"
					e.key = elemPtr(e.base, idx64Term(c.vals[1].T, isSigned(vc.rt(c.types[1]))))
				case "all":
					e.kind = "range"
					e.lo, e.hi = bvLit(0, 64), slen(c.vals[0].T)
				case "range":
					e.lo = idx64Term(c.vals[1].T, isSigned(vc.rt(c.types[1])))
					e.hi = idx64Term(c.vals[2].T, isSigned(vc.rt(c.types[2])))
				}
			case *types.Map:
				has, val, ln, _, _ := vc.mapHeaps(u)
				e.heap = []string{has, val, ln}
				e.isMap, e.mt = true, u
				e.key = c.vals[0].T
				if c.kind == "index" {
					e.mkey = c.vals[1].T
				} else if c.kind == "range" {
					unsup("range on map in modifies")
				}
			case *types.Array:
				// arrays are whole values: the address of the array cell
				if c.arrayAddr == nil {
					unsup("modifies on array value without address")
				}
				e.kind = "addr"
				if c.fieldOf != nil {
					e.heap = []string{c.fieldHeap}
					e.key = c.fieldOf.T
				} else {
					hs := map[string]bool{}
					vc.heapsOfType(bt, hs)
					e.heap = sortedKeys(hs)
					e.key = c.arrayAddr.T
				}
			default:
				unsup("modifies: cannot index %s", bt)
			}
		}
		out = append(out, e)
	}
	return out
}

func idx64Term(i Term, signed bool) Term {
	w := bvWidth(i.Sort)
	if w == 64 {
		return i
	}
	if signed {
		return Term{fmt.Sprintf("((_ sign_extend %d) %s)", 64-w, i.S), bvSort(64)}
	}
	return Term{fmt.Sprintf("((_ zero_extend %d) %s)", 64-w, i.S), bvSort(64)}
}

func sortedKeys(m map[string]bool) []string {
	var ks []string
	for k := range m {
		ks = append(ks, k)
	}
	sort.Strings(ks)
	return ks
}

type modCapture struct {
	fieldPath string
	kind      string
	vals      []Val
	types     []types.Type
	fieldOf   *Val // when the address is a leaf field: the struct pointer
	fieldHeap string
	arrayAddr *Val
}

// notInMod builds the condition that pointer q of heap h is outside every entry for that heap.
func notInMod(entries []modEntry, heap string, q Term) (Term, bool) {
	var cs []Term
	touched := false
	for _, e := range entries {
		hit := false
		for _, h := range e.heap {
			if h == heap {
				hit = true
			}
		}
		if !hit {
			continue
		}
		touched = true
		switch {
		case e.isMap:
			cs = append(cs, not(eq(q, e.key)))
		case e.kind == "addr":
			cs = append(cs, not(eq(q, e.key)))
		case e.kind == "range":
			cs = append(cs, not(Term{fmt.Sprintf("(inrange %s %s %s %s)", q.S, e.base.S, e.lo.S, e.hi.S), SBool}))
		}
	}
	return and(cs...), touched
}

// applyModifies havocs in post what the callee may modify and adds frame facts.
func (vc *VC) applyModifies(callee *ssa.Function, fs *FuncSpec, args []Val, pre, post *State) {
	body := callee
	if callee.Origin() != nil && len(callee.Blocks) == 0 {
		body = callee.Origin()
	}
	entries, has := vc.resolveModifies(fs, args, pre)
	inferred0, all := vc.modOfFunc(body)
	inferred := map[string]bool{}
	for k := range inferred0 {
		inferred[k] = true
	}
	vc.ghostHeaps(fs, inferred)
	if all && !has {
		vc.havocAll(post)
		return
	}
	n := vc.freshConst("nalloc", SInt)
	vc.assume(app(SBool, "<=", pre.nalloc, n))
	post.nalloc = n
	if !has {
		for _, h := range sortedKeys(inferred) {
			vc.havocHeap(post, h)
		}
		return
	}
	heaps := map[string]bool{}
	for _, e := range entries {
		for _, h := range e.heap {
			heaps[h] = true
		}
	}
	for _, h := range sortedKeys(heaps) {
		oldH := vc.heapGet(pre, h)
		// singular entries only: nested stores of fresh values keep the VC quantifier free
		simple := true
		for _, e := range entries {
			for _, eh := range e.heap {
				if eh == h && (e.kind == "range" || e.isMap && e.mkey.S != "") {
					simple = false
				}
			}
		}
		_, vs := arrayParts(oldH.Sort)
		if simple {
			cur := oldH
			for _, e := range entries {
				for _, eh := range e.heap {
					if eh == h {
						cur = store(cur, e.key, vc.freshConst("hv_"+h, vs))
					}
				}
			}
			roots := vc.heapRoots(pre, h)
			post.heaps[h] = vc.name(h, cur)
			post.roots[h] = roots
			continue
		}
		newH := vc.havocHeap(post, h)
		q := Term{"q", SPtr}
		cond, _ := notInMod(entries, h, q)
		vc.asserts = append(vc.asserts, fmt.Sprintf("(forall ((q Ptr)) (! (=> %s (= (select %s q) (select %s q))) :pattern ((select %s q))))", cond.S, newH.S, oldH.S, newH.S))
		// map index entries: other keys of the same map unchanged
		for _, e := range entries {
			if e.isMap && e.mkey.S != "" {
				for _, eh := range e.heap {
					if eh == h && strings.HasPrefix(h, "ML_") == false {
						ks, _ := arrayParts(vs)
						vc.asserts = append(vc.asserts, fmt.Sprintf("(forall ((k %s)) (! (=> (not (= k %s)) (= (select (select %s %s) k) (select (select %s %s) k))) :pattern ((select (select %s %s) k))))",
							ks, e.mkey.S, newH.S, e.key.S, oldH.S, e.key.S, newH.S, e.key.S))
					}
				}
			}
		}
	}
}

// ---- static modification inference ----------------------------------------------------------

type modInfo struct {
	heaps map[string]bool
	all   bool
}

func (vc *VC) modOfFunc(fn *ssa.Function) (map[string]bool, bool) {
	if vc.modCache == nil {
		vc.modCache = map[*ssa.Function]*modInfo{}
	}
	if mi, ok := vc.modCache[fn]; ok {
		return mi.heaps, mi.all
	}
	mi := &modInfo{heaps: map[string]bool{}}
	vc.modCache[fn] = mi // recursion guard
	blocks := map[*ssa.BasicBlock]bool{}
	for _, b := range fn.Blocks {
		blocks[b] = true
	}
	h, all := vc.modOfBlocks(fn, blocks)
	mi.heaps, mi.all = h, all
	return h, all
}

func (vc *VC) modOfBlocks(fn *ssa.Function, blocks map[*ssa.BasicBlock]bool) (map[string]bool, bool) {
	out := map[string]bool{}
	all := false
	for b := range blocks {
		for _, ins := range b.Instrs {
			switch t := ins.(type) {
			case *ssa.Store:
				// stores into local variables that never escape do not touch the heaps
				root := t.Addr
				for {
					switch u := root.(type) {
					case *ssa.FieldAddr:
						root = u.X
						continue
					case *ssa.IndexAddr:
						root = u.X
						continue
					}
					break
				}
				if a, ok := root.(*ssa.Alloc); ok && (isLocalAlloc(a) || a.Comment == "makeslice") {
					continue
				}
				vc.staticStoreHeaps(t.Addr, out)
			case *ssa.MapUpdate:
				if mt, ok := vc.rt(t.Map.Type()).Underlying().(*types.Map); ok {
					has, val, ln, _, _ := vc.mapHeaps(mt)
					out[has], out[val], out[ln] = true, true, true
				}
			case *ssa.Alloc:
				// zero-initialisation of a fresh cell is invisible to others; ignore
			case ssa.CallInstruction:
				c := t.Common()
				if c.IsInvoke() {
					continue
				}
				switch callee := c.Value.(type) {
				case *ssa.Builtin:
					switch callee.Name() {
					case "append":
						if st, ok := vc.rt(c.Args[0].Type()).Underlying().(*types.Slice); ok {
							vc.heapsOfType(st.Elem(), out)
						}
					case "copy":
						if st, ok := vc.rt(c.Args[0].Type()).Underlying().(*types.Slice); ok {
							vc.heapsOfType(st.Elem(), out)
						}
					case "delete", "clear":
						if mt, ok := vc.rt(c.Args[0].Type()).Underlying().(*types.Map); ok {
							has, val, ln, _, _ := vc.mapHeaps(mt)
							out[has], out[val], out[ln] = true, true, true
						}
					}
				case *ssa.Function:
					if !vc.inPkg(callee) {
						continue
					}
					if isSpecHelper(callee.Name()) || vc.isSpecDecl(callee.Name()) != nil {
						continue
					}
					body := callee
					useOrigin := callee.Origin() != nil && len(callee.Blocks) == 0
					if useOrigin {
						body = callee.Origin()
					}
					var saved map[*types.TypeParam]types.Type
					if useOrigin {
						saved = vc.tsubst
						vc.tsubst = instSubst(callee, saved)
					}
					if fs := vc.contractOf(callee); fs != nil && fs.hasClause("modifies") {
						vc.staticModifiesHeaps(fs, out)
					} else {
						if fs != nil {
							vc.ghostHeaps(fs, out)
						}
						h, a := vc.modOfFunc(body)
						for k := range h {
							out[k] = true
						}
						if a {
							all = true
						}
					}
					if useOrigin {
						vc.tsubst = saved
					}
				case *ssa.MakeClosure:
					h, a := vc.modOfFunc(callee.Fn.(*ssa.Function))
					for k := range h {
						out[k] = true
					}
					if a {
						all = true
					}
				default:
					// a call through a function value: everything, unless the function under proof
					// declares that its callbacks run under the world lock (lockedcallbacks)
					if fs := vc.L.Con.Funcs[vc.Top.RelString(vc.L.SPkg.Pkg)]; fs != nil && fs.Flags["lockedcallbacks"] {
						continue
					}
					all = true
				}
			}
		}
	}
	return out, all
}

// ghostHeaps adds the heaps written by the ghost clauses of a contract.
func (vc *VC) ghostHeaps(fs *FuncSpec, out map[string]bool) {
	for _, cl := range fs.Clauses {
		if cl.Kind != "ghost" {
			continue
		}
		if cf := vc.clauseFn(cl); cf != nil {
			h, _ := vc.modOfFunc(cf)
			for k := range h {
				out[k] = true
			}
		}
	}
}

func (fs *FuncSpec) hasClause(kind string) bool {
	for _, c := range fs.Clauses {
		if c.Kind == kind {
			return true
		}
	}
	return false
}

// staticModifiesHeaps lists the heaps named by a modifies clause, from the types in its function.
func (vc *VC) staticModifiesHeaps(fs *FuncSpec, out map[string]bool) {
	for _, cl := range fs.Clauses {
		if cl.Kind != "modifies" {
			continue
		}
		cf := vc.clauseFn(cl)
		if cf == nil {
			continue
		}
		for _, b := range cf.Blocks {
			for _, ins := range b.Instrs {
				mi, ok := ins.(*ssa.MakeInterface)
				if !ok {
					continue
				}
				xt := vc.rt(mi.X.Type())
				switch u := xt.Underlying().(type) {
				case *types.Pointer:
					vc.staticStoreHeaps(mi.X, out)
				case *types.Slice:
					vc.heapsOfType(u.Elem(), out)
				case *types.Map:
					has, val, ln, _, _ := vc.mapHeaps(u)
					out[has], out[val], out[ln] = true, true, true
				case *types.Array:
					if ld, ok := mi.X.(*ssa.UnOp); ok && ld.Op == token.MUL {
						vc.staticStoreHeaps(ld.X, out)
					}
				}
			}
		}
	}
}

func (vc *VC) staticStoreHeaps(addr ssa.Value, out map[string]bool) {
	et := vc.rt(addr.Type()).Underlying().(*types.Pointer).Elem()
	if ia, ok := addr.(*ssa.IndexAddr); ok {
		if pt, ok := vc.rt(ia.X.Type()).Underlying().(*types.Pointer); ok {
			if _, ok := pt.Elem().Underlying().(*types.Array); ok {
				vc.staticStoreHeaps(ia.X, out)
				return
			}
		}
	}
	if fa, ok := addr.(*ssa.FieldAddr); ok {
		st := vc.rt(fa.X.Type()).Underlying().(*types.Pointer).Elem()
		u := types.Unalias(st).Underlying().(*types.Struct)
		ft := u.Field(fa.Field).Type()
		if isStruct(vc.rt(ft)) {
			vc.heapsOfType(ft, out)
		} else {
			h := vc.heapNameField(st, fa.Field)
			vc.heapDecl(h, vc.sortOf(ft))
			out[h] = true
		}
		return
	}
	vc.heapsOfType(et, out)
}

// ---- dynamic calls (callbacks) and external functions ----------------------------------------

func (fr *Frame) dynamicCall(t *ssa.Call, fv Val) {
	vc := fr.vc
	if vc.spec > 0 {
		unsup("dynamic call in specification")
	}
	// "fires" clauses of the enclosing loop: the callback may only run when the documented predicate holds
	if fr.isTop {
		var inner *loopData
		for _, ld := range fr.loops {
			if ld.blocks[fr.cur] && (inner == nil || len(ld.blocks) < len(inner.blocks)) {
				inner = ld
			}
		}
		if inner != nil {
			if key, ok := fr.firedKey[inner]; ok {
				for k, cl := range fr.loopClauses(inner, "fires") {
					p := fr.evalPointClause(inner, cl, fr.cur)
					vc.oblige("fires=>", fmt.Sprintf("%s#fires=>[L%d.%s]", fr.fname(), inner.ordinal, clauseLabel(cl, k)), fr.live, p, t.Pos())
				}
				fr.st.cells[key] = Val{T: tTrue}
			}
		}
	}
	if fr.isTop {
		fr.runAsserts(t.Common().Value.Name(), t.Pos(), fr.evalArgs(t.Common().Args)...)
	}
	// a callback: may do anything the API allows; havoc every heap
	fr.check("nilfunc", t.Common().Value.Name(), not(eq(fv.T, Term{"nilfunc", SFunc})), t.Pos())
	if fr.isTop && fr.spec != nil && fr.spec.Flags["lockedcallbacks"] {
		vc.assumed["callbacks of "+fr.fname()+" run under the world lock (C07): they are assumed not to change the state these contracts describe (entity index, tables, pool, locks); observer and filter registrations changed by a callback are not modelled"] = true
	} else {
		vc.havocAll(fr.st)
		vc.assumed["callback: a call through a function value havocs all heaps and is assumed not to panic"] = true
	}
	if t.Type() != nil {
		if tup, ok := t.Type().(*types.Tuple); ok && tup.Len() == 0 {
			fr.vals[t] = Val{}
			return
		}
		fr.vals[t] = vc.freshVal(t.Name(), t.Type())
	}
}

func (fr *Frame) externCall(name string, args []ssa.Value, rt types.Type, invoke bool) Val {
	vc := fr.vc
	switch name {
	case "math/bits.OnesCount64":
		x := fr.term(args[0])
		return Val{T: Term{fmt.Sprintf("(popcnt64 %s)", x.S), bvSort(64)}}
	case "(*sync.Mutex).Lock", "(*sync.Mutex).Unlock":
		return Val{}
	case "fmt.Errorf", "errors.New":
		vc.assumed["dependency contract: "+name+" returns a non-nil error and has no other effect"] = true
		e := vc.freshConst("err", SIface)
		vc.assume(not(eq(e, Term{"niliface", SIface})))
		return Val{T: e}
	case "(encoding/binary.bigEndian).PutUint32", "(encoding/binary.bigEndian).Uint32", "(encoding/binary.bigEndian).AppendUint32":
		vc.assumed["dependency contract: encoding/binary.BigEndian.{PutUint32,Uint32,AppendUint32} store/load the four bytes most significant first (assumed, not inlined)"] = true
		return fr.bigEndian(name, args)
	}
	vc.assumed["external call "+name+": result arbitrary, no effect on modelled memory, no panic"] = true
	if tup, ok := rt.(*types.Tuple); ok && tup.Len() == 0 {
		return Val{}
	}
	if vc.qdepth > 0 {
		unsup("external call %s inside quantifier", name)
	}
	v := vc.freshVal("ext_"+name, rt)
	vc.assumeWFVal(fr.st, v, rt)
	return v
}

// bigEndian models the three encoding/binary.BigEndian methods used by the package.
func (fr *Frame) bigEndian(name string, args []ssa.Value) Val {
	vc := fr.vc
	bv8 := bvSort(8)
	byteT := types.Typ[types.Uint8]
	h := vc.heapNameElem(byteT)
	vc.heapDecl(h, bv8)
	ext := func(v Term, k int) Term { // byte k (0 = most significant) of a 32-bit value
		hi := 31 - 8*k
		return Term{fmt.Sprintf("((_ extract %d %d) %s)", hi, hi-7, v.S), bv8}
	}
	switch {
	case strings.HasSuffix(name, ".PutUint32"):
		b, v := fr.term(args[1]), fr.term(args[2])
		fr.check("bounds", "binary.BigEndian.PutUint32", app(SBool, "bvuge", slen(b), bvLit(4, 64)), args[1].Pos())
		for k := 0; k < 4; k++ {
			vc.heapWrite(fr.st, h, elemPtr(sptr(b), bvLit(uint64(k), 64)), ext(v, k))
		}
		return Val{}
	case strings.HasSuffix(name, ".Uint32") && !strings.HasSuffix(name, "AppendUint32"):
		b := fr.term(args[1])
		fr.check("bounds", "binary.BigEndian.Uint32", app(SBool, "bvuge", slen(b), bvLit(4, 64)), args[1].Pos())
		var bs []Term
		for k := 0; k < 4; k++ {
			bs = append(bs, vc.heapRead(fr.st, h, elemPtr(sptr(b), bvLit(uint64(k), 64))))
		}
		return Val{T: vc.name("be32", app(bvSort(32), "concat", bs...))}
	default: // AppendUint32
		b, v := fr.term(args[1]), fr.term(args[2])
		var vals []Term
		for k := 0; k < 4; k++ {
			vals = append(vals, ext(v, k))
		}
		return Val{T: fr.appendVals(b, byteT, vals, "be_append")}
	}
}

// appendVals appends a constant number of element values to a slice (same semantics as the
// append builtin: in place when capacity suffices, otherwise a fresh zero-padded copy).
func (fr *Frame) appendVals(s Term, elem types.Type, vals []Term, name string) Term {
	vc := fr.vc
	bv := bvSort(64)
	n := bvLit(uint64(len(vals)), 64)
	newLen := vc.name("applen", app(bv, "bvadd", slen(s), n))
	inplace := vc.name("inplace", app(SBool, "bvule", newLen, scap(s)))
	fresh := vc.newAllocSlice(fr.st, elem)
	vc.markFresh(elem)
	newCap := vc.freshConst("appcap", bv)
	vc.assume(and(app(SBool, "bvule", newLen, newCap), app(SBool, "bvule", newCap, Term{"#x0000010000000000", bv})))
	rptr := vc.name("appptr", ite(inplace, sptr(s), fresh))
	rcap := ite(inplace, scap(s), newCap)
	hs := map[string]bool{}
	vc.heapsOfType(elem, hs)
	oldHeaps := map[string]Term{}
	for _, h := range sortedKeys(hs) {
		oldH := vc.heapGet(fr.st, h)
		oldHeaps[h] = oldH
		_, vs := arrayParts(oldH.Sort)
		roots := vc.heapRoots(fr.st, h)
		nh := vc.freshConst(h, oldH.Sort)
		vc.rootBound[nh.S] = fr.st.nalloc
		vc.asserts = append(vc.asserts,
			fmt.Sprintf("(forall ((q Ptr)) (! (= (select %[1]s q) (ite (= (alloc q) (alloc %[2]s)) (ite (bvult (rootidx3 (path q)) %[3]s) (select %[4]s (mkptr (alloc %[5]s) (rebase3 (path q) (pe_p (path %[5]s)) (pe_i (path %[5]s))))) %[6]s) (select %[4]s q))) :pattern ((select %[1]s q))))",
				nh.S, fresh.S, slen(s).S, oldH.S, sptr(s).S, vc.zeroOfSort(vs).S))
		fr.st.heaps[h] = vc.name(h, ite(inplace, oldH, nh))
		fr.st.roots[h] = append(append([]string{}, roots...), nh.S)
	}
	for k, v := range vals {
		vc.storeAt(fr.st, elemPtr(rptr, app(bv, "bvadd", slen(s), bvLit(uint64(k), 64))), elem, v)
	}
	fr.appendKeepsPrefix(hs, oldHeaps, s, rptr)
	return vc.name(name, mkSlice(rptr, newLen, rcap))
}

// appendKeepsPrefix states a consequence of the append axioms with a pattern on the *old*
// element: element j < len(s) of the result is element j of s. It makes the read of the result
// available as a ground term whenever the old element is mentioned (needed to carry "exists k ::
// s[k] == x" across an append).
func (fr *Frame) appendKeepsPrefix(hs map[string]bool, oldHeaps map[string]Term, s, rptr Term) {
	vc := fr.vc
	for _, h := range sortedKeys(hs) {
		if !strings.HasPrefix(h, "E_") {
			continue
		}
		oldH, ok := oldHeaps[h]
		if !ok {
			continue
		}
		fin := vc.heapGet(fr.st, h)
		vc.asserts = append(vc.asserts,
			fmt.Sprintf("(forall ((j (_ BitVec 64))) (! (=> (bvult j %[1]s) (= (select %[2]s (elemptr %[3]s j)) (select %[4]s (elemptr %[5]s j)))) :pattern ((select %[4]s (elemptr %[5]s j))) :pattern ((elemptr %[5]s j))))",
				slen(s).S, fin.S, rptr.S, oldH.S, sptr(s).S))
	}
}

// ---- builtins -------------------------------------------------------------------------------

func (fr *Frame) builtin(t *ssa.Call, b *ssa.Builtin) {
	vc := fr.vc
	args := t.Common().Args
	switch b.Name() {
	case "len":
		x := fr.val(args[0])
		switch x.T.Sort {
		case SSlice:
			fr.set(t, slen(x.T))
		case SPtr: // map
			mt, ok := vc.rt(args[0].Type()).Underlying().(*types.Map)
			if !ok {
				unsup("len of %s", args[0].Type())
			}
			has, _, ln, ks, _ := vc.mapHeaps(mt)
			l := vc.heapRead(fr.st, ln, x.T)
			// a map of length zero has no keys
			if vc.qdepth == 0 {
				vc.assume(implies(eq(l, bvLit(0, 64)), eq(vc.heapRead(fr.st, has, x.T), Term{fmt.Sprintf("((as const (Array %s Bool)) false)", ks), arraySort(ks, SBool)})))
				vc.assume(app(SBool, "bvule", l, Term{"#x0000010000000000", bvSort(64)}))
			}
			fr.set(t, ite(isNil(x.T), bvLit(0, 64), l))
		case SStr:
			fn := "strlen"
			if _, ok := vc.declared[fn]; !ok {
				vc.declared[fn] = "fun"
				vc.decls = append(vc.decls, "(declare-fun strlen (Str) (_ BitVec 64))")
			}
			fr.set(t, app(bvSort(64), fn, x.T))
		default:
			if arr, ok := vc.rt(args[0].Type()).Underlying().(*types.Array); ok {
				fr.set(t, bvLit(uint64(arr.Len()), 64))
				return
			}
			unsup("len of %s", args[0].Type())
		}
	case "cap":
		x := fr.val(args[0])
		if x.T.Sort != SSlice {
			unsup("cap of %s", args[0].Type())
		}
		fr.set(t, scap(x.T))
	case "Add":
		// unsafe.Add(p, n): an uninterpreted offset of an untyped pointer (component memory is
		// outside the heap model; what matters is which pointer and which offset are combined)
		if _, ok := vc.declared["uadd"]; !ok {
			vc.declared["uadd"] = "fun"
			vc.decls = append(vc.decls, "(declare-fun uadd (Ptr (_ BitVec 64)) Ptr)")
		}
		p := fr.term(args[0])
		n := fr.idx64(fr.term(args[1]), args[1].Type())
		fr.set(t, app(SPtr, "uadd", p, n))
	case "append":
		fr.appendBuiltin(t)
	case "copy":
		fr.copyBuiltin(t)
	case "delete":
		mt := vc.rt(args[0].Type()).Underlying().(*types.Map)
		m, k := fr.term(args[0]), fr.term(args[1])
		has, _, ln, ks, _ := vc.mapHeaps(mt)
		hasArr := vc.heapRead(fr.st, has, m)
		was := and(not(isNil(m)), sel(hasArr, k, SBool))
		l := vc.heapRead(fr.st, ln, m)
		vc.heapWrite(fr.st, ln, m, ite(was, app(bvSort(64), "bvsub", l, bvLit(1, 64)), l))
		vc.heapWrite(fr.st, has, m, store(Term{hasArr.S, arraySort(ks, SBool)}, k, tFalse))
		fr.vals[t] = Val{}
	case "min", "max":
		x, y := fr.term(args[0]), fr.term(args[1])
		op := "bvule"
		if isSigned(vc.rt(args[0].Type())) {
			op = "bvsle"
		}
		le := app(SBool, op, x, y)
		if b.Name() == "min" {
			fr.set(t, ite(le, x, y))
		} else {
			fr.set(t, ite(le, y, x))
		}
	case "clear":
		if mt, ok := vc.rt(args[0].Type()).Underlying().(*types.Map); ok {
			m := fr.term(args[0])
			has, val, ln, ks, vsrt := vc.mapHeaps(mt)
			if fr.val(args[0]).Ghost {
				vc.heapWrite(fr.st, val, m, vc.zeroOfSort(arraySort(ks, vsrt)))
			}
			vc.heapWrite(fr.st, has, m, Term{fmt.Sprintf("((as const (Array %s Bool)) false)", ks), arraySort(ks, SBool)})
			vc.heapWrite(fr.st, ln, m, bvLit(0, 64))
			fr.vals[t] = Val{}
			return
		}
		unsup("clear on slice")
	case "print", "println":
		fr.vals[t] = Val{}
	case "Sizeof", "Alignof":
		// only emitted for operands whose type depends on a type parameter (otherwise a
		// constant): the size is an arbitrary value, zero included
		vc.assumed["unsafe."+b.Name()+" of a type-parameter value: arbitrary result (zero included)"] = true
		fr.set(t, vc.freshConst("sizeof", bvSort(64)))
	default:
		unsup("builtin %s", b.Name())
	}
}

func (fr *Frame) appendBuiltin(t *ssa.Call) {
	vc := fr.vc
	args := t.Common().Args
	if vc.modCapture != nil {
		fr.captureMod(t)
		return
	}
	s := fr.term(args[0])
	st := vc.rt(args[0].Type()).Underlying().(*types.Slice)
	add := fr.term(args[1])
	if add.Sort != SSlice {
		unsup("append of string")
	}
	n := slen(add)
	bv := bvSort(64)
	newLen := vc.name("applen", app(bv, "bvadd", slen(s), n))
	inplace := vc.name("inplace", app(SBool, "bvule", newLen, scap(s)))
	fresh := vc.newAllocSlice(fr.st, st.Elem())
	vc.markFresh(st.Elem())
	newCap := vc.freshConst("appcap", bv)
	vc.assume(and(app(SBool, "bvule", newLen, newCap), app(SBool, "bvule", newCap, Term{"#x0000010000000000", bv})))
	rptr := vc.name("appptr", ite(inplace, sptr(s), fresh))
	rcap := ite(inplace, scap(s), newCap)
	// element heaps
	hs := map[string]bool{}
	vc.heapsOfType(st.Elem(), hs)
	// constant number of appended elements?
	var cnt int = -1
	for k := 0; k <= 4; k++ {
		if n.S == bvLit(uint64(k), 64).S {
			cnt = k
		}
	}
	// copy phase (only in the reallocation case): the new heap is defined pointwise from the old
	// one, with a pattern that matches every read of the new heap.
	oldHeaps := map[string]Term{}
	for _, h := range sortedKeys(hs) {
		oldH := vc.heapGet(fr.st, h)
		oldHeaps[h] = oldH
		_, vs := arrayParts(oldH.Sort)
		roots := vc.heapRoots(fr.st, h)
		nh := vc.freshConst(h, oldH.Sort)
		vc.rootBound[nh.S] = fr.st.nalloc
		vc.asserts = append(vc.asserts,
			fmt.Sprintf("(forall ((q Ptr)) (! (= (select %[1]s q) (ite (= (alloc q) (alloc %[2]s)) (ite (bvult (rootidx3 (path q)) %[3]s) (select %[4]s (mkptr (alloc %[5]s) (rebase3 (path q) (pe_p (path %[5]s)) (pe_i (path %[5]s))))) %[6]s) (select %[4]s q))) :pattern ((select %[1]s q))))",
				nh.S, fresh.S, slen(s).S, oldH.S, sptr(s).S, vc.zeroOfSort(vs).S))
		fr.st.heaps[h] = vc.name(h, ite(inplace, oldH, nh))
		fr.st.roots[h] = append(append([]string{}, roots...), nh.S)
	}
	defer func() { fr.appendKeepsPrefix(hs, oldHeaps, s, rptr) }()
	if cnt >= 0 {
		for k := 0; k < cnt; k++ {
			v := vc.loadAt(fr.st, elemPtr(sptr(add), bvLit(uint64(k), 64)), st.Elem())
			vc.storeAt(fr.st, elemPtr(rptr, app(bv, "bvadd", slen(s), bvLit(uint64(k), 64))), st.Elem(), v)
		}
	} else {
		for _, h := range sortedKeys(hs) {
			oldH := vc.heapGet(fr.st, h)
			nh := vc.havocHeap(fr.st, h)
			vc.asserts = append(vc.asserts,
				fmt.Sprintf("(forall ((q Ptr)) (! (= (select %[1]s q) (ite (inrange q %[2]s %[3]s %[4]s) (select %[5]s (elemptr %[6]s (bvsub (bvsub (pe_i (path q)) (pe_i (path %[2]s))) %[3]s))) (select %[5]s q))) :pattern ((select %[1]s q))))",
					nh.S, rptr.S, slen(s).S, newLen.S, oldH.S, sptr(add).S))
		}
	}
	fr.vals[t] = Val{T: vc.name(t.Name(), mkSlice(rptr, newLen, rcap))}
}

func nestedStruct(vc *VC, t types.Type) bool {
	u, ok := types.Unalias(vc.rt(t)).Underlying().(*types.Struct)
	if !ok {
		return false
	}
	for i := 0; i < u.NumFields(); i++ {
		if isStruct(vc.rt(u.Field(i).Type())) {
			return true
		}
	}
	return false
}

func (fr *Frame) copyBuiltin(t *ssa.Call) {
	vc := fr.vc
	args := t.Common().Args
	dst, src := fr.term(args[0]), fr.term(args[1])
	if src.Sort != SSlice {
		unsup("copy from string")
	}
	st := vc.rt(args[0].Type()).Underlying().(*types.Slice)
	bv := bvSort(64)
	n := vc.name("copyn", ite(app(SBool, "bvule", slen(dst), slen(src)), slen(dst), slen(src)))
	hs := map[string]bool{}
	vc.heapsOfType(st.Elem(), hs)
	if nestedStruct(vc, st.Elem()) {
		// elements with nested struct fields: over-approximation -- everything inside the
		// destination's allocation is arbitrary afterwards, memory of other allocations is kept
		for _, h := range sortedKeys(hs) {
			oldH := vc.heapGet(fr.st, h)
			nh := vc.havocHeap(fr.st, h)
			vc.asserts = append(vc.asserts,
				fmt.Sprintf("(forall ((q Ptr)) (! (=> (not (= (alloc q) (alloc %[2]s))) (= (select %[1]s q) (select %[3]s q))) :pattern ((select %[1]s q))))",
					nh.S, sptr(dst).S, oldH.S))
		}
		fr.set(t, n)
		return
	}
	for _, h := range sortedKeys(hs) {
		oldH := vc.heapGet(fr.st, h)
		nh := vc.havocHeap(fr.st, h)
		vc.asserts = append(vc.asserts,
			fmt.Sprintf("(forall ((q Ptr)) (! (= (select %[1]s q) (ite (inrange q %[2]s (_ bv0 64) %[3]s) (select %[4]s (elemptr %[5]s (bvsub (pe_i (path q)) (pe_i (path %[2]s))))) (select %[4]s q))) :pattern ((select %[1]s q))))",
				nh.S, sptr(dst).S, n.S, oldH.S, sptr(src).S))
	}
	_ = bv
	fr.set(t, n)
}

// captureMod intercepts r = append(r, "kind", any(x)...) inside a modifies clause function.
func (fr *Frame) captureMod(t *ssa.Call) {
	vc := fr.vc
	args := t.Common().Args
	// args[1] is a slice made from a [N]any array; find the stores into it
	sl, ok := args[1].(*ssa.Slice)
	if !ok {
		unsup("modifies clause: unexpected shape")
	}
	alloc, ok := sl.X.(*ssa.Alloc)
	if !ok {
		unsup("modifies clause: unexpected shape")
	}
	type slot struct {
		idx int64
		v   ssa.Value
	}
	var slots []slot
	for _, r := range *alloc.Referrers() {
		ia, ok := r.(*ssa.IndexAddr)
		if !ok {
			continue
		}
		k := ia.Index.(*ssa.Const).Int64()
		for _, rr := range *ia.Referrers() {
			if st, ok := rr.(*ssa.Store); ok {
				slots = append(slots, slot{k, st.Val})
			}
		}
	}
	sort.Slice(slots, func(i, j int) bool { return slots[i].idx < slots[j].idx })
	if len(slots) == 0 {
		unsup("modifies clause: empty entry")
	}
	kindMI, ok := slots[0].v.(*ssa.MakeInterface)
	if !ok {
		unsup("modifies clause: kind missing")
	}
	kc, ok := kindMI.X.(*ssa.Const)
	if !ok {
		unsup("modifies clause: kind missing")
	}
	mc := modCapture{kind: strings.Trim(kc.Value.ExactString(), "\"")}
	for _, s := range slots[1:] {
		mi, ok := s.v.(*ssa.MakeInterface)
		if !ok {
			unsup("modifies clause: entry is not an interface conversion")
		}
		if mc.kind == "allfield" && len(mc.vals) == 1 {
			if sc, ok := mi.X.(*ssa.Const); ok {
				mc.fieldPath = strings.Trim(sc.Value.ExactString(), "\"")
				continue
			}
		}
		mc.vals = append(mc.vals, fr.val(mi.X))
		mc.types = append(mc.types, mi.X.Type())
		if len(mc.vals) == 1 {
			// provenance of the address
			if fa, ok := mi.X.(*ssa.FieldAddr); ok && mc.kind == "addr" {
				st := vc.rt(fa.X.Type()).Underlying().(*types.Pointer).Elem()
				u := types.Unalias(st).Underlying().(*types.Struct)
				ft := u.Field(fa.Field).Type()
				if !isStruct(vc.rt(ft)) {
					x := fr.val(fa.X)
					mc.fieldOf = &x
					mc.fieldHeap = vc.heapNameField(st, fa.Field)
					vc.heapDecl(mc.fieldHeap, vc.sortOf(ft))
				}
			}
			if ld, ok := mi.X.(*ssa.UnOp); ok && ld.Op == token.MUL {
				if _, isArr := vc.rt(mi.X.Type()).Underlying().(*types.Array); isArr {
					a := fr.val(ld.X)
					mc.arrayAddr = &a
					if fa, ok := ld.X.(*ssa.FieldAddr); ok {
						st := vc.rt(fa.X.Type()).Underlying().(*types.Pointer).Elem()
						x := fr.val(fa.X)
						mc.fieldOf = &x
						mc.fieldHeap = vc.heapNameField(st, fa.Field)
						u := types.Unalias(st).Underlying().(*types.Struct)
						vc.heapDecl(mc.fieldHeap, vc.sortOf(u.Field(fa.Field).Type()))
					}
				}
			}
		}
	}
	*vc.modCapture = append(*vc.modCapture, mc)
	fr.vals[t] = Val{T: Term{"nilslice", SSlice}}
}

func boolKeysT(m map[string]Term) map[string]bool {
	out := map[string]bool{}
	for k := range m {
		out[k] = true
	}
	return out
}

func strKeys(m map[string]string) map[string]bool {
	out := map[string]bool{}
	for k := range m {
		out[k] = true
	}
	return out
}
