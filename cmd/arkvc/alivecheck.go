package main

// Alive-guard pass (property C10). Obligation guard(alive), decided on the SSA of package ecs:
// in every exported operation that takes an entity handle, the entity index (storage.entities)
// is not indexed with that handle's id — directly or through callees — before the handle has
// passed an Alive check whose failure branch does not continue. The documented *Unchecked
// variants are exempt. This is a sound sufficient condition for "a dead or recycled handle is
// rejected before the operation touches anything" as far as the entity index is concerned.

import (
	"fmt"
	"go/token"
	"go/types"
	"os"
	"sort"
	"strings"

	"golang.org/x/tools/go/ssa"
)

func isEntityType(t types.Type) bool {
	n, ok := t.(*types.Named)
	return ok && n.Obj().Name() == "Entity" && n.Obj().Pkg() != nil && strings.HasSuffix(n.Obj().Pkg().Path(), "/ecs")
}

// fromParam: does v carry (the id of) parameter p? Follows the spill of p into a local, field
// selection, loads and conversions.
func fromParam(v ssa.Value, p *ssa.Parameter, depth int) bool {
	if depth > 12 || v == nil {
		return false
	}
	switch x := v.(type) {
	case *ssa.Parameter:
		return x == p
	case *ssa.UnOp:
		return fromParam(x.X, p, depth+1)
	case *ssa.FieldAddr:
		return fromParam(x.X, p, depth+1)
	case *ssa.Field:
		return fromParam(x.X, p, depth+1)
	case *ssa.Convert:
		return fromParam(x.X, p, depth+1)
	case *ssa.ChangeType:
		return fromParam(x.X, p, depth+1)
	case *ssa.Alloc:
		// local copy of the parameter: some store into it stores p
		if refs := x.Referrers(); refs != nil {
			for _, r := range *refs {
				if st, ok := r.(*ssa.Store); ok && st.Addr == x && st.Val == p {
					return true
				}
			}
		}
	}
	return false
}

func isEntitiesIndex(ins ssa.Instruction, p *ssa.Parameter) bool {
	ia, ok := ins.(*ssa.IndexAddr)
	if !ok {
		return false
	}
	ld, ok := ia.X.(*ssa.UnOp)
	if !ok || ld.Op != token.MUL {
		return false
	}
	fa, ok := ld.X.(*ssa.FieldAddr)
	if !ok {
		return false
	}
	st, ok := fa.X.Type().Underlying().(*types.Pointer)
	if !ok {
		return false
	}
	s, ok := st.Elem().Underlying().(*types.Struct)
	if !ok || s.Field(fa.Field).Name() != "entities" {
		return false
	}
	if n, ok := st.Elem().(*types.Named); !ok || n.Obj().Name() != "storage" {
		return false
	}
	return fromParam(ia.Index, p, 0)
}

type aliveSummary struct {
	needs       bool // indexes the entity index with the parameter before any guard
	establishes bool // on every normal return the parameter has passed an Alive check
}

type aliveAnalysis struct {
	L    *Loaded
	memo map[string]*aliveSummary
}

func (a *aliveAnalysis) isAliveCall(c *ssa.Call, p *ssa.Parameter) bool {
	f := calleeOf(c)
	if f == nil || f.Name() != "Alive" {
		return false
	}
	for _, arg := range c.Common().Args {
		if isEntityType(arg.Type()) && fromParam(arg, p, 0) {
			return true
		}
	}
	return false
}

func (a *aliveAnalysis) summary(f *ssa.Function, pi int) *aliveSummary {
	key := fmt.Sprintf("%p/%d", f, pi)
	if s, ok := a.memo[key]; ok {
		return s
	}
	s := &aliveSummary{}
	a.memo[key] = s // recursion: optimistic
	if len(f.Blocks) == 0 || pi >= len(f.Params) {
		return s
	}
	p := f.Params[pi]
	type st struct {
		b *ssa.BasicBlock
		g bool
	}
	seen := map[string]bool{}
	work := []st{{f.Blocks[0], false}}
	establishes := true
	for len(work) > 0 {
		w := work[len(work)-1]
		work = work[:len(work)-1]
		k := fmt.Sprintf("%d/%v", w.b.Index, w.g)
		if seen[k] {
			continue
		}
		seen[k] = true
		g := w.g
		var aliveRes ssa.Value
		ended := false
		for _, ins := range w.b.Instrs {
			if !g && isEntitiesIndex(ins, p) {
				s.needs = true
			}
			if c, ok := ins.(*ssa.Call); ok {
				if a.isAliveCall(c, p) {
					aliveRes = c
					continue
				}
				if callee := calleeOf(c); callee != nil && (callee.Pkg == a.L.SPkg) {
					body := callee
					for ai, arg := range c.Common().Args {
						if !isEntityType(arg.Type()) || !fromParam(arg, p, 0) {
							continue
						}
						if ai >= len(body.Params) {
							continue
						}
						cs := a.summary(body, ai)
						if !g && cs.needs {
							s.needs = true
						}
						if cs.establishes {
							g = true
						}
					}
				}
			}
			switch t := ins.(type) {
			case *ssa.Return:
				if !g {
					establishes = false
				}
				ended = true
			case *ssa.Panic:
				ended = true
			case *ssa.If:
				// branch on the result of Alive(p): guarded on the branch where it is true
				cond := t.Cond
				neg := false
				if u, ok := cond.(*ssa.UnOp); ok && u.Op == token.NOT {
					cond, neg = u.X, true
				}
				if aliveRes != nil && cond == aliveRes {
					tBranch, fBranch := w.b.Succs[0], w.b.Succs[1]
					if neg {
						tBranch, fBranch = fBranch, tBranch
					}
					work = append(work, st{tBranch, true}, st{fBranch, g})
					ended = true
				}
			}
			if ended {
				break
			}
		}
		if ended {
			continue
		}
		for _, succ := range w.b.Succs {
			work = append(work, st{succ, g})
		}
	}
	s.establishes = establishes
	return s
}

func (r *Report) runAliveCheck(allowFile string) (int, map[string]any) {
	allow := readAllow(allowFile)
	a := &aliveAnalysis{L: r.L, memo: map[string]*aliveSummary{}}
	var names []string
	for n := range r.L.Funcs {
		names = append(names, n)
	}
	sort.Strings(names)
	nEntry, nOK := 0, 0
	v := 0
	var samples []any
	for _, n := range names {
		f := r.L.Funcs[n]
		if f.Pkg != r.L.SPkg || f.Synthetic != "" || !isEntryPoint(f) {
			continue
		}
		if strings.Contains(f.Name(), "Unchecked") || f.Name() == "Alive" {
			continue
		}
		for pi, p := range f.Params {
			if !isEntityType(p.Type()) {
				continue
			}
			nEntry++
			s := a.summary(f, pi)
			if !s.needs {
				nOK++
				continue
			}
			pos := r.L.Fset.Position(f.Pos())
			line := lineText(pos.Filename, pos.Line)
			key := n + "\tguard(alive)\t" + line
			if why, ok := allow[key]; ok {
				samples = append(samples, map[string]any{"function": n, "status": "allow-listed: " + why})
				continue
			}
			v++
			dir := r.ReplayDir
			if dir == "" {
				dir = "replays"
			}
			os.MkdirAll(dir+"/"+r.Prop, 0o755)
			path := fmt.Sprintf("%s/%s/alive_%x.txt", dir, r.Prop, hashStr(key))
			os.WriteFile(path, []byte(fmt.Sprintf("property: %s\nobligation: %s#guard(alive)[%s]\nThe exported operation indexes the entity index with the id of its handle parameter %q (directly or in a callee) on a path on which the handle has not passed an Alive check.\nat: %s\n", r.Prop, n, p.Name(), p.Name(), line)), 0o644)
			fmt.Printf("VIOLATION property=%s replay=%s obligation=%s#guard(alive) no-failing-input-found\n", r.Prop, path, strings.ReplaceAll(n, " ", "_"))
		}
	}
	fmt.Printf("alive-guard pass: handle parameters of exported operations=%d guarded=%d findings=%d\n", nEntry, nOK, v)
	samples = append(samples, map[string]any{"handle_parameters": nEntry, "guarded": nOK})
	return v, map[string]any{"alive_guard_parameters": nEntry, "alive_guard_ok": nOK, "alive_guard_findings": v, "alive_samples": samples}
}
