package main

import (
	"flag"
	"fmt"
	"os"
	"regexp"
	"sort"
	"strings"
	"time"
)

func main() {
	repo := flag.String("repo", "/repo", "repository root")
	tags := flag.String("tags", "verif", "build tags")
	fnre := flag.String("func", "", "regexp selecting functions under contract")
	prop := flag.String("prop", "", "property id (selects contracts that serve it)")
	tier := flag.String("tier", "quick", "quick|thorough")
	timeout := flag.Int("timeout", 0, "per-goal solver timeout in ms (0: by tier)")
	workers := flag.Int("j", 16, "parallel solver processes")
	keep := flag.String("keep", "", "directory to keep failing scripts")
	dump := flag.Bool("dump-overlay", false, "print the generated specification file")
	verbose := flag.Bool("v", false, "verbose")
	evidence := flag.String("evidence", "", "write evidence JSON to this file")
	replayDir := flag.String("replays", "", "directory for replay files")
	known := flag.String("known", "", "known findings file")
	lock := flag.String("lock", "", "obligations.lock file")
	updateLock := flag.Bool("update-lock", false, "rewrite obligations.lock from this run")
	flag.Parse()
	os.Setenv("PATH", "/opt/veriftools/go1.26.8/bin:"+os.Getenv("PATH"))
	os.Setenv("GOTOOLCHAIN", "local")
	os.Setenv("GOFLAGS", "-mod=mod")
	os.Setenv("GOPROXY", "off")

	t0 := time.Now()
	L, err := Load(*repo, *tags)
	if err != nil {
		fmt.Fprintln(os.Stderr, "load error:", err)
		os.Exit(2)
	}
	if *dump {
		fmt.Println(L.Overlay)
	}
	for _, s := range L.Stale {
		fmt.Fprintln(os.Stderr, "STALE:", s)
	}
	tmo := *timeout
	if tmo == 0 {
		tmo = 5000
		if *tier == "thorough" {
			tmo = 60000
		}
	}
	var re *regexp.Regexp
	if *fnre != "" {
		re = regexp.MustCompile(*fnre)
	}
	var names []string
	for _, n := range L.Con.Order {
		fs := L.Con.Funcs[n]
		if re != nil && !re.MatchString(n) {
			continue
		}
		if *prop != "" && !contains(fs.Serves, *prop) {
			continue
		}
		names = append(names, n)
	}
	sort.Strings(names)
	var results []*FuncResult
	for _, n := range names {
		fs := L.Con.Funcs[n]
		fn := L.Funcs[n]
		if fn == nil {
			results = append(results, &FuncResult{Name: n, Spec: fs, Err: "function not found in SSA (stale contract)"})
			continue
		}
		r := verifyFunction(L, fn, fs)
		results = append(results, r)
	}
	tgen := time.Since(t0)
	seed := 0
	if s := os.Getenv("VERIF_SEED"); s != "" {
		fmt.Sscanf(s, "%d", &seed)
	}
	verdicts := discharge(results, *workers, tmo, seed, *keep)
	rep := &Report{L: L, Results: results, Verdicts: verdicts, Prop: *prop, Tier: *tier, Seed: seed, GenS: tgen.Seconds(), WallS: time.Since(t0).Seconds(),
		Evidence: *evidence, ReplayDir: *replayDir, KnownFile: *known, LockFile: *lock, UpdateLock: *updateLock, Verbose: *verbose, TimeoutMs: tmo, Tags: *tags}
	os.Exit(rep.Finish())
}

func contains(xs []string, x string) bool {
	for _, y := range xs {
		if y == x {
			return true
		}
	}
	return false
}

type Report struct {
	L          *Loaded
	Results    []*FuncResult
	Verdicts   []*Verdict
	Prop, Tier string
	Seed       int
	GenS       float64
	WallS      float64
	Evidence   string
	ReplayDir  string
	KnownFile  string
	LockFile   string
	UpdateLock bool
	Verbose    bool
	TimeoutMs  int
	Tags       string
}

func (r *Report) Finish() int {
	nd, nr, nu := 0, 0, 0
	for _, v := range r.Verdicts {
		switch v.Status {
		case "discharged", "cover-ok":
			nd++
			if r.Verbose {
				fmt.Printf("  ok        %-8s %5.2fs %s\n", v.Backend, v.TimeS, v.Obl.Name)
			}
		case "refuted":
			nr++
			fmt.Printf("  REFUTED   %-8s %5.2fs %s\n", v.Backend, v.TimeS, v.Obl.Name)
			if r.Verbose {
				fmt.Println(indent(truncate(v.Model, 3000)))
			}
		case "cover-fail":
			nr++
			fmt.Printf("  VACUOUS   %-8s %5.2fs %s\n", v.Backend, v.TimeS, v.Obl.Name)
		default:
			nu++
			fmt.Printf("  UNDECIDED %-8s %5.2fs %s\n", "", v.TimeS, v.Obl.Name)
			if r.Verbose {
				fmt.Println(indent(truncate(v.Output, 1500)))
			}
		}
	}
	for _, fr := range r.Results {
		if fr.Err != "" {
			fmt.Printf("  UNSUPPORTED %s: %s\n", fr.Name, fr.Err)
		}
	}
	fmt.Printf("functions=%d obligations=%d discharged=%d refuted=%d undecided=%d gen=%.1fs wall=%.1fs\n", len(r.Results), len(r.Verdicts), nd, nr, nu, r.GenS, r.WallS)
	if nr > 0 {
		return 1
	}
	return 0
}

func indent(s string) string {
	return "      " + strings.ReplaceAll(s, "\n", "\n      ")
}
