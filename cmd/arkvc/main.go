package main

import (
	"flag"
	"fmt"
	"os"
	"regexp"
	"sort"
	"strings"
	"time"
)

func main() {
	repo := flag.String("repo", "/repo", "repository root")
	tags := flag.String("tags", "verif", "build tags")
	fnre := flag.String("func", "", "regexp selecting functions under contract")
	prop := flag.String("prop", "", "property id (selects contracts that serve it)")
	tier := flag.String("tier", "quick", "quick|thorough")
	timeout := flag.Int("timeout", 0, "per-goal solver timeout in ms (0: by tier)")
	workers := flag.Int("j", 16, "parallel solver processes")
	keep := flag.String("keep", "", "directory to keep failing scripts")
	dump := flag.Bool("dump-overlay", false, "print the generated specification file")
	verbose := flag.Bool("v", false, "verbose")
	listFuncs := flag.String("list", "", "list SSA functions matching the regexp and exit")
	evidence := flag.String("evidence", "", "write evidence JSON to this file")
	replayDir := flag.String("replays", "", "directory for replay files")
	known := flag.String("known", "", "known findings file")
	lock := flag.String("lock", "", "obligations.lock file")
	updateLock := flag.Bool("update-lock", false, "rewrite obligations.lock from this run")
	flag.BoolVar(&dumpAll, "dumpall", false, "keep every script in -keep dir")
	verifDir := flag.String("verif", "/verif", "verification directory (known findings, replays)")
	level := flag.String("level", "proof", "evidence level")
	sweep := flag.String("sweep", "", "extra whole-package pass: determinism")
	allow := flag.String("allow", "", "allow-list file for the sweep")
	preinstFile := flag.String("preinst", "", "debug: print the pre-instantiated form of an SMT script and exit")
	runReplay := flag.String("run-replay", "", "run a replay file (Go test: executed against the repository; text: printed) and exit 1 if it shows a violation")
	boundedFiles := flag.String("bounded", "", "comma separated bounded-check test files (package ecs) run against the repository; labelled bounded, never counted as proved")
	flag.Parse()
	if *preinstFile != "" {
		data, err := os.ReadFile(*preinstFile)
		if err != nil {
			fmt.Println(err)
			os.Exit(2)
		}
		out, ok := preInstantiate(string(data))
		if !ok {
			fmt.Fprintln(os.Stderr, "nothing to instantiate")
			os.Exit(1)
		}
		fmt.Print(out)
		return
	}
	origPath = os.Getenv("PATH")
	if *runReplay != "" {
		if strings.HasSuffix(*runReplay, ".go") {
			failed, out := runReplayFile(&Loaded{Repo: *repo}, *runReplay)
			fmt.Print(out)
			if failed {
				fmt.Println("replay: the test fails on the real code (violation reproduced)")
				os.Exit(1)
			}
			fmt.Println("replay: the test passes on the real code")
			os.Exit(0)
		}
		data, err := os.ReadFile(*runReplay)
		if err != nil {
			fmt.Println(err)
			os.Exit(2)
		}
		fmt.Print(string(data))
		fmt.Println("replay: record of a failed obligation (no executable input); re-run the property's check to re-evaluate it")
		os.Exit(1)
	}
	os.Setenv("PATH", "/opt/veriftools/go1.26.8/bin:"+os.Getenv("PATH"))
	os.Setenv("GOTOOLCHAIN", "local")
	os.Setenv("GOFLAGS", "-mod=mod")
	os.Setenv("GOPROXY", "off")

	t0 := time.Now()
	knownList := parseKnown(*known)
	preLoadKnown = knownList
	L, err := Load(*repo, *tags)
	if err != nil {
		fmt.Fprintln(os.Stderr, "load error:", err)
		os.Exit(2)
	}
	if *dump {
		fmt.Println(L.Overlay)
	}
	if *listFuncs != "" {
		re := regexp.MustCompile(*listFuncs)
		var ns []string
		for n, f := range L.Funcs {
			if re.MatchString(n) {
				ns = append(ns, fmt.Sprintf("%s  blocks=%d synthetic=%q", n, len(f.Blocks), f.Synthetic))
			}
		}
		sort.Strings(ns)
		fmt.Println(strings.Join(ns, "\n"))
		os.Exit(0)
	}
	tmo := *timeout
	if tmo == 0 {
		tmo = 8000
		if *tier == "thorough" {
			tmo = 60000
		}
	}
	var re *regexp.Regexp
	if *fnre != "" {
		re = regexp.MustCompile(*fnre)
	}
	var names []string
	for _, n := range L.Con.Order {
		fs := L.Con.Funcs[n]
		if re != nil && !re.MatchString(n) {
			continue
		}
		if *prop != "" && !contains(fs.Serves, *prop) {
			continue
		}
		names = append(names, n)
	}
	sort.Strings(names)
	var results []*FuncResult
	for _, n := range names {
		fs := L.Con.Funcs[n]
		fn := L.Funcs[n]
		if fn == nil {
			results = append(results, &FuncResult{Name: n, Spec: fs, Err: "function not found in SSA (stale contract)"})
			continue
		}
		r := verifyFunction(L, fn, fs)
		results = append(results, r)
	}
	for _, d := range L.Con.Lemmas {
		if re != nil && !re.MatchString("lemma "+d.Name) {
			continue
		}
		if *prop != "" && !contains(d.Serves, *prop) {
			continue
		}
		results = append(results, verifyLemma(L, d))
	}
	tgen := time.Since(t0)
	seed := 0
	if s := os.Getenv("VERIF_SEED"); s != "" {
		fmt.Sscanf(s, "%d", &seed)
	}
	if !*updateLock && *lock != "" && *fnre == "" {
		lk := readLock(*lock)
		skipObl = func(name string) bool { return lk[lockKey(*tags, name)] == "u" }
	}
	if *updateLock && *lock != "" && os.Getenv("ARKVC_FULL_RETRY") == "" {
		lk := readLock(*lock)
		shortObl = func(name string) bool { return lk[lockKey(*tags, name)] == "u" }
	}
	leanRace = tmo < 30000
	verdicts := discharge(results, *workers, tmo, seed, *keep)
	skipObl = nil
	leanRace = false
	// retry undecided obligations that the lock records as discharged, with thorough limits
	lockSet := readLock(*lock)
	lockFam := lockFamilies(lockSet)
	var retry []*FuncResult
	retryIdx := map[*Obl]int{}
	for i, v := range verdicts {
		cls := lockClass(lockSet, lockFam, *tags, v.Obl.Name)
		// quick tier: everything claimed (and new obligations of known functions) gets a second
		// attempt; thorough tier: claimed obligations get one with 2.5x the limit they were
		// discharged under at the lock refresh, so that a loaded machine is not an alarm
		again := false
		if tmo < 60000 {
			again = cls == "q" || cls == "c" || (cls == "" && !*updateLock && *fnre == "" && lockHasFunc(lockSet, *tags, v.Func) && !v.Obl.Cover)
		} else if !*updateLock {
			again = cls == "q" || cls == "c" || cls == "t"
		}
		if v.Status == "undecided" && again {
			for _, fr := range results {
				if fr.Name == v.Func {
					retry = append(retry, &FuncResult{Name: fr.Name, Spec: fr.Spec, VC: fr.VC, Obls: []*Obl{v.Obl}})
					retryIdx[v.Obl] = i
				}
			}
		}
	}
	if len(retry) > 0 {
		for _, v := range discharge(retry, *workers, 150000, seed+1, *keep) {
			v.TimeS += verdicts[retryIdx[v.Obl]].TimeS
			verdicts[retryIdx[v.Obl]] = v
		}
	}
	rep := &Report{L: L, Results: results, Verdicts: verdicts, Prop: *prop, Tier: *tier, Seed: seed, GenS: tgen.Seconds(), T0: t0,
		Evidence: *evidence, ReplayDir: *replayDir, KnownFile: *known, Known: knownList, LockFile: *lock, UpdateLock: *updateLock, Verbose: *verbose,
		TimeoutMs: tmo, Tags: *tags, FuncFilter: *fnre, VerifDir: *verifDir, Level: *level,
		CheckerCmd: strings.Join(os.Args, " "), Sweep: *sweep, AllowFile: *allow, BoundedFiles: *boundedFiles}
	os.Exit(rep.Finish())
}

var preLoadKnown []*Known

func contains(xs []string, x string) bool {
	for _, y := range xs {
		if y == x {
			return true
		}
	}
	return false
}

type Report struct {
	L           *Loaded
	Results     []*FuncResult
	Verdicts    []*Verdict
	Prop, Tier  string
	Seed        int
	GenS        float64
	T0          time.Time
	Evidence    string
	ReplayDir   string
	KnownFile   string
	Known       []*Known
	LockFile    string
	UpdateLock  bool
	Verbose     bool
	TimeoutMs   int
	Tags        string
	FuncFilter  string
	VerifDir    string
	Level       string
	CheckerCmd  string
	Bounded     any
	BoundedFiles string
	Explanation string
	Sweep       string
	AllowFile   string
	inheritedCls map[string]string
	matchedOld   map[string]bool
}

func indent(s string) string {
	return "      " + strings.ReplaceAll(s, "\n", "\n      ")
}
