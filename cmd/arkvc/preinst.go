package main

// Trigger-based pre-instantiation. The solvers' E-matching turned out to be order dependent on
// scripts that mix bit-vector value propagation with patterns containing bvadd (the element
// address computation): the needed instance of a frame clause is sometimes never produced. This
// pass does the obvious instantiations before the solver runs:
//   - the negated goal is skolemized (not (forall x. P x)) ~> (not (P sk)), which is equisatisfiable;
//   - every assumption of the form (forall xs (! body :pattern (p))) or (=> g (forall ...)) is
//     instantiated with each substitution that matches p syntactically against a ground subterm
//     of the script, and the instances are added as further assumptions.
// Instances of assumptions are consequences of them, so the transformed script is unsatisfiable
// only if the original one is: the pass can only help to prove, and its results are used for
// "unsat" answers only.

import (
	"fmt"
	"strings"
)

type sx struct {
	atom string
	kids []*sx
}

func (n *sx) isAtom() bool { return n.kids == nil }

func parseSx(s string) *sx {
	pos := 0
	var parse func() *sx
	parse = func() *sx {
		for pos < len(s) && (s[pos] == ' ' || s[pos] == '\n' || s[pos] == '\t') {
			pos++
		}
		if pos >= len(s) {
			return nil
		}
		if s[pos] == '(' {
			pos++
			n := &sx{kids: []*sx{}}
			for {
				for pos < len(s) && (s[pos] == ' ' || s[pos] == '\n' || s[pos] == '\t') {
					pos++
				}
				if pos >= len(s) {
					return n
				}
				if s[pos] == ')' {
					pos++
					return n
				}
				k := parse()
				if k == nil {
					return n
				}
				n.kids = append(n.kids, k)
			}
		}
		st := pos
		if s[pos] == '|' {
			pos++
			for pos < len(s) && s[pos] != '|' {
				pos++
			}
			pos++
		} else if s[pos] == '"' {
			pos++
			for pos < len(s) && s[pos] != '"' {
				pos++
			}
			pos++
		} else {
			for pos < len(s) && s[pos] != ' ' && s[pos] != '(' && s[pos] != ')' && s[pos] != '\n' {
				pos++
			}
		}
		return &sx{atom: s[st:pos]}
	}
	return parse()
}

func (n *sx) write(sb *strings.Builder) {
	if n.isAtom() {
		sb.WriteString(n.atom)
		return
	}
	sb.WriteByte('(')
	for i, k := range n.kids {
		if i > 0 {
			sb.WriteByte(' ')
		}
		k.write(sb)
	}
	sb.WriteByte(')')
}

func (n *sx) String() string {
	var sb strings.Builder
	n.write(&sb)
	return sb.String()
}

func (n *sx) head() string {
	if n.isAtom() || len(n.kids) == 0 {
		return ""
	}
	if n.kids[0].isAtom() {
		return n.kids[0].atom
	}
	return n.kids[0].String()
}

func sxSubst(n *sx, m map[string]*sx) *sx {
	if n.isAtom() {
		if r, ok := m[n.atom]; ok {
			return r
		}
		return n
	}
	out := &sx{kids: make([]*sx, len(n.kids))}
	changed := false
	for i, k := range n.kids {
		out.kids[i] = sxSubst(k, m)
		if out.kids[i] != k {
			changed = true
		}
	}
	if !changed {
		return n
	}
	return out
}

// stripBang removes a (! body :pattern ...) annotation and returns the single-term patterns.
func stripBang(n *sx) (*sx, []*sx) {
	if n.isAtom() || n.head() != "!" || len(n.kids) < 2 {
		return n, nil
	}
	var pats []*sx
	for i := 2; i+1 < len(n.kids); i += 2 {
		if n.kids[i].isAtom() && n.kids[i].atom == ":pattern" && !n.kids[i+1].isAtom() && len(n.kids[i+1].kids) == 1 {
			pats = append(pats, n.kids[i+1].kids[0])
		}
	}
	return n.kids[1], pats
}

type qAssump struct {
	guard *sx // may be nil
	vars  []string
	sorts []*sx
	body  *sx
	pats  []*sx
}

// asQuant recognises (forall (..) (! body :pattern..)) and (=> g (forall ...)).
func asQuant(n *sx) *qAssump {
	var guard *sx
	if !n.isAtom() && n.head() == "=>" && len(n.kids) == 3 {
		guard, n = n.kids[1], n.kids[2]
	}
	if n.isAtom() || n.head() != "forall" || len(n.kids) != 3 {
		return nil
	}
	q := &qAssump{guard: guard}
	for _, b := range n.kids[1].kids {
		if b.isAtom() || len(b.kids) != 2 || !b.kids[0].isAtom() {
			return nil
		}
		q.vars = append(q.vars, b.kids[0].atom)
		q.sorts = append(q.sorts, b.kids[1])
	}
	q.body, q.pats = stripBang(n.kids[2])
	if len(q.pats) == 0 {
		return nil
	}
	return q
}

func sxMatch(p, t *sx, vars map[string]bool, m map[string]*sx) bool {
	if p.isAtom() {
		if vars[p.atom] {
			if b, ok := m[p.atom]; ok {
				return b.String() == t.String()
			}
			m[p.atom] = t
			return true
		}
		return t.isAtom() && t.atom == p.atom
	}
	if t.isAtom() || len(p.kids) != len(t.kids) {
		return false
	}
	for i := range p.kids {
		if !sxMatch(p.kids[i], t.kids[i], vars, m) {
			return false
		}
	}
	return true
}

// collectGround indexes the application subterms of n that mention none of the bound names.
// Returns whether n itself is ground.
func collectGround(n *sx, bound map[string]bool, idx map[string][]*sx, seen map[string]bool) bool {
	if n.isAtom() {
		return !bound[n.atom]
	}
	h := n.head()
	if h == "forall" || h == "exists" {
		if len(n.kids) == 3 {
			var added []string
			for _, b := range n.kids[1].kids {
				if !b.isAtom() && len(b.kids) == 2 && b.kids[0].isAtom() && !bound[b.kids[0].atom] {
					bound[b.kids[0].atom] = true
					added = append(added, b.kids[0].atom)
				}
			}
			collectGround(n.kids[2], bound, idx, seen)
			for _, a := range added {
				delete(bound, a)
			}
		}
		return false
	}
	if h == "let" {
		return false
	}
	ground := true
	for i, k := range n.kids {
		if i == 0 && k.isAtom() {
			continue
		}
		if !collectGround(k, bound, idx, seen) {
			ground = false
		}
	}
	if ground && len(n.kids) > 1 {
		switch h {
		case "and", "or", "not", "=>", "=", "ite", "!", "distinct":
		default:
			s := n.String()
			if !seen[s] {
				seen[s] = true
				idx[h] = append(idx[h], n)
			}
		}
	}
	return ground
}

const preInstMax = 400

// preInstantiate transforms a script as described above. ok is false when nothing was added.
func preInstantiate(script string) (string, bool) {
	lines := strings.Split(script, "\n")
	var assertIdx []int
	checkLine := -1
	for i, l := range lines {
		if strings.HasPrefix(l, "(assert ") {
			assertIdx = append(assertIdx, i)
		}
		if strings.HasPrefix(l, "(check-sat") {
			checkLine = i
		}
	}
	if len(assertIdx) == 0 || checkLine < 0 {
		return "", false
	}
	goalLine := assertIdx[len(assertIdx)-1]
	if !strings.HasPrefix(lines[goalLine], "(assert (not ") {
		return "", false
	}
	var extraDecl, extraAss []string
	// skolemize the goal
	g := parseSx(lines[goalLine])
	if g == nil || len(g.kids) != 2 || len(g.kids[1].kids) != 2 {
		return "", false
	}
	goal := g.kids[1].kids[1]
	nsk := 0
	changedGoal := false
	for {
		goal, _ = stripBang(goal)
		if goal.isAtom() {
			break
		}
		if goal.head() == "forall" && len(goal.kids) == 3 {
			m := map[string]*sx{}
			for _, b := range goal.kids[1].kids {
				nsk++
				name := fmt.Sprintf("sk!%d", nsk)
				extraDecl = append(extraDecl, fmt.Sprintf("(declare-const %s %s)", name, b.kids[1].String()))
				m[b.kids[0].atom] = &sx{atom: name}
			}
			goal = sxSubst(goal.kids[2], m)
			changedGoal = true
			continue
		}
		if goal.head() == "=>" && len(goal.kids) == 3 {
			extraAss = append(extraAss, goal.kids[1].String())
			goal = goal.kids[2]
			changedGoal = true
			continue
		}
		break
	}
	// ground terms
	idx := map[string][]*sx{}
	seen := map[string]bool{}
	var quants []*qAssump
	for _, li := range assertIdx[:len(assertIdx)-1] {
		a := parseSx(lines[li])
		if a == nil || len(a.kids) != 2 {
			continue
		}
		if q := asQuant(a.kids[1]); q != nil {
			quants = append(quants, q)
		}
		collectGround(a.kids[1], map[string]bool{}, idx, seen)
	}
	for _, e := range extraAss {
		collectGround(parseSx(e), map[string]bool{}, idx, seen)
	}
	collectGround(goal, map[string]bool{}, idx, seen)
	if len(quants) == 0 {
		if !changedGoal {
			return "", false
		}
	}
	done := map[string]bool{}
	var insts []string
	for round := 0; round < 2 && len(insts) < preInstMax; round++ {
		var newTerms []*sx
		for qi, q := range quants {
			vars := map[string]bool{}
			for _, v := range q.vars {
				vars[v] = true
			}
			for _, p := range q.pats {
				if p.isAtom() {
					continue
				}
				for _, t := range idx[p.head()] {
					m := map[string]*sx{}
					if !sxMatch(p, t, vars, m) || len(m) != len(q.vars) {
						continue
					}
					var key strings.Builder
					fmt.Fprintf(&key, "%d", qi)
					for _, v := range q.vars {
						key.WriteByte('|')
						key.WriteString(m[v].String())
					}
					if done[key.String()] {
						continue
					}
					done[key.String()] = true
					inst := sxSubst(q.body, m)
					s := inst.String()
					if q.guard != nil {
						s = "(=> " + q.guard.String() + " " + s + ")"
					}
					insts = append(insts, s)
					newTerms = append(newTerms, inst)
					if len(insts) >= preInstMax {
						break
					}
				}
				if len(insts) >= preInstMax {
					break
				}
			}
			if len(insts) >= preInstMax {
				break
			}
		}
		if len(newTerms) == 0 {
			break
		}
		for _, t := range newTerms {
			collectGround(t, map[string]bool{}, idx, seen)
		}
	}
	if len(insts) == 0 && !changedGoal {
		return "", false
	}
	var sb strings.Builder
	for i, l := range lines {
		if i == goalLine {
			for _, d := range extraDecl {
				sb.WriteString(d)
				sb.WriteByte('\n')
			}
			for _, a := range extraAss {
				sb.WriteString("(assert " + a + ")\n")
			}
			for _, a := range insts {
				sb.WriteString("(assert " + a + ")\n")
			}
			sb.WriteString("(assert (not " + goal.String() + "))\n")
			continue
		}
		sb.WriteString(l)
		if i < len(lines)-1 {
			sb.WriteByte('\n')
		}
	}
	return sb.String(), true
}
