package main

// Trigger-based pre-instantiation. The solvers' E-matching turned out to be order dependent on
// scripts that mix bit-vector value propagation with patterns containing bvadd (the element
// address computation): the needed instance of a frame clause is sometimes never produced. This
// pass does the obvious instantiations before the solver runs:
//   - the negated goal is skolemized (not (forall x. P x)) ~> (not (P sk)), which is equisatisfiable;
//   - every assumption of the form (forall xs (! body :pattern (p))) or (=> g (forall ...)) is
//     instantiated with each substitution that matches p syntactically against a ground subterm
//     of the script, and the instances are added as further assumptions.
// Instances of assumptions are consequences of them, so the transformed script is unsatisfiable
// only if the original one is: the pass can only help to prove, and its results are used for
// "unsat" answers only.

import (
	"fmt"
	"os"
	"strings"
)

type sx struct {
	atom string
	kids []*sx
}

func (n *sx) isAtom() bool { return n.kids == nil }

func parseSx(s string) *sx {
	pos := 0
	var parse func() *sx
	parse = func() *sx {
		for pos < len(s) && (s[pos] == ' ' || s[pos] == '\n' || s[pos] == '\t') {
			pos++
		}
		if pos >= len(s) {
			return nil
		}
		if s[pos] == '(' {
			pos++
			n := &sx{kids: []*sx{}}
			for {
				for pos < len(s) && (s[pos] == ' ' || s[pos] == '\n' || s[pos] == '\t') {
					pos++
				}
				if pos >= len(s) {
					return n
				}
				if s[pos] == ')' {
					pos++
					return n
				}
				k := parse()
				if k == nil {
					return n
				}
				n.kids = append(n.kids, k)
			}
		}
		st := pos
		if s[pos] == '|' {
			pos++
			for pos < len(s) && s[pos] != '|' {
				pos++
			}
			pos++
		} else if s[pos] == '"' {
			pos++
			for pos < len(s) && s[pos] != '"' {
				pos++
			}
			pos++
		} else {
			for pos < len(s) && s[pos] != ' ' && s[pos] != '(' && s[pos] != ')' && s[pos] != '\n' {
				pos++
			}
		}
		return &sx{atom: s[st:pos]}
	}
	return parse()
}

func (n *sx) write(sb *strings.Builder) {
	if n.isAtom() {
		sb.WriteString(n.atom)
		return
	}
	sb.WriteByte('(')
	for i, k := range n.kids {
		if i > 0 {
			sb.WriteByte(' ')
		}
		k.write(sb)
	}
	sb.WriteByte(')')
}

func (n *sx) String() string {
	var sb strings.Builder
	n.write(&sb)
	return sb.String()
}

func (n *sx) head() string {
	if n.isAtom() || len(n.kids) == 0 {
		return ""
	}
	if n.kids[0].isAtom() {
		return n.kids[0].atom
	}
	return n.kids[0].String()
}

func sxSubst(n *sx, m map[string]*sx) *sx {
	if n.isAtom() {
		if r, ok := m[n.atom]; ok {
			return r
		}
		return n
	}
	out := &sx{kids: make([]*sx, len(n.kids))}
	changed := false
	for i, k := range n.kids {
		out.kids[i] = sxSubst(k, m)
		if out.kids[i] != k {
			changed = true
		}
	}
	if !changed {
		return n
	}
	return out
}

// expandLimit bounds the size (in nodes, counted as a tree) of a term that is still expanded.
const expandLimit = 60000

// sxSize counts the nodes of n as a tree, giving up at limit.
func sxSize(n *sx, limit int) int {
	if n.isAtom() {
		return 1
	}
	c := 1
	for _, k := range n.kids {
		c += sxSize(k, limit-c)
		if c >= limit {
			return limit
		}
	}
	return c
}

// sxSimp applies the slice accessor rules sptr/slen/scap (mkslice p l c) = p/l/c bottom-up.
func sxSimp(n *sx) *sx {
	if n.isAtom() {
		return n
	}
	out := &sx{kids: make([]*sx, len(n.kids))}
	changed := false
	for i, k := range n.kids {
		out.kids[i] = sxSimp(k)
		if out.kids[i] != k {
			changed = true
		}
	}
	if !changed {
		out = n
	}
	if len(out.kids) == 2 && out.kids[0].isAtom() && !out.kids[1].isAtom() && out.kids[1].head() == "mkslice" && len(out.kids[1].kids) == 4 {
		switch out.kids[0].atom {
		case "sptr":
			return out.kids[1].kids[1]
		case "slen":
			return out.kids[1].kids[2]
		case "scap":
			return out.kids[1].kids[3]
		}
	}
	return out
}

// stripBang removes a (! body :pattern ...) annotation and returns the single-term patterns.
func stripBang(n *sx) (*sx, []*sx) {
	if n.isAtom() || n.head() != "!" || len(n.kids) < 2 {
		return n, nil
	}
	var pats []*sx
	for i := 2; i+1 < len(n.kids); i += 2 {
		if n.kids[i].isAtom() && n.kids[i].atom == ":pattern" && !n.kids[i+1].isAtom() && len(n.kids[i+1].kids) == 1 {
			pats = append(pats, n.kids[i+1].kids[0])
		}
	}
	return n.kids[1], pats
}

type qAssump struct {
	guard *sx // may be nil
	vars  []string
	sorts []*sx
	body  *sx
	pats  []*sx
}

// asQuant recognises (forall (..) (! body :pattern..)) and (=> g (forall ...)).
func asQuant(n *sx) *qAssump {
	var guard *sx
	if !n.isAtom() && n.head() == "=>" && len(n.kids) == 3 {
		guard, n = n.kids[1], n.kids[2]
	}
	if n.isAtom() || n.head() != "forall" || len(n.kids) != 3 {
		return nil
	}
	q := &qAssump{guard: guard}
	for _, b := range n.kids[1].kids {
		if b.isAtom() || len(b.kids) != 2 || !b.kids[0].isAtom() {
			return nil
		}
		q.vars = append(q.vars, b.kids[0].atom)
		q.sorts = append(q.sorts, b.kids[1])
	}
	q.body, q.pats = stripBang(n.kids[2])
	if len(q.pats) == 0 {
		q.pats = inferPatterns(q.body, q.vars)
	}
	if len(q.pats) == 0 {
		return nil
	}
	return q
}

// inferPatterns picks, for a quantifier without annotation, the minimal "select" subterms of the
// body that mention every bound variable (at most four alternatives).
func inferPatterns(body *sx, vars []string) []*sx {
	vs := map[string]bool{}
	for _, v := range vars {
		vs[v] = true
	}
	var out []*sx
	seen := map[string]bool{}
	// returns the set of bound variables in n, and whether a candidate was found below n
	var walk func(n *sx, shadow map[string]bool) (map[string]bool, bool)
	walk = func(n *sx, shadow map[string]bool) (map[string]bool, bool) {
		if n.isAtom() {
			if vs[n.atom] && !shadow[n.atom] {
				return map[string]bool{n.atom: true}, false
			}
			return nil, false
		}
		h := n.head()
		if h == "forall" || h == "exists" || h == "let" {
			return nil, true // do not look into nested binders
		}
		got := map[string]bool{}
		found := false
		for i, k := range n.kids {
			if i == 0 && k.isAtom() {
				continue
			}
			g, f := walk(k, shadow)
			for v := range g {
				got[v] = true
			}
			if f {
				found = true
			}
		}
		if !found && (h == "select" || h == "elemptr") && len(got) == len(vs) {
			str := n.String()
			bad := strings.Contains(str, "(ite ") || strings.Contains(str, "(and ") || strings.Contains(str, "(not ") || strings.Contains(str, "(or ")
			if !bad && !seen[str] && len(out) < 4 {
				seen[str] = true
				out = append(out, n)
			}
			if !bad {
				return got, true
			}
		}
		return got, found
	}
	walk(body, map[string]bool{})
	return out
}

func sxMatch(p, t *sx, vars map[string]bool, m map[string]*sx) bool {
	if p.isAtom() {
		if vars[p.atom] {
			if b, ok := m[p.atom]; ok {
				return b.String() == t.String()
			}
			m[p.atom] = t
			return true
		}
		return t.isAtom() && t.atom == p.atom
	}
	if t.isAtom() || len(p.kids) != len(t.kids) {
		return false
	}
	for i := range p.kids {
		if !sxMatch(p.kids[i], t.kids[i], vars, m) {
			return false
		}
	}
	return true
}

// collectGround indexes the application subterms of n that mention none of the bound names.
// Returns whether n itself is ground.
func collectGround(n *sx, bound map[string]bool, idx map[string][]*sx, seen map[string]bool) bool {
	if n.isAtom() {
		return !bound[n.atom]
	}
	h := n.head()
	if h == "forall" || h == "exists" {
		if len(n.kids) == 3 {
			var added []string
			for _, b := range n.kids[1].kids {
				if !b.isAtom() && len(b.kids) == 2 && b.kids[0].isAtom() && !bound[b.kids[0].atom] {
					bound[b.kids[0].atom] = true
					added = append(added, b.kids[0].atom)
				}
			}
			collectGround(n.kids[2], bound, idx, seen)
			for _, a := range added {
				delete(bound, a)
			}
		}
		return false
	}
	if h == "let" {
		return false
	}
	ground := true
	for i, k := range n.kids {
		if i == 0 && k.isAtom() {
			continue
		}
		if !collectGround(k, bound, idx, seen) {
			ground = false
		}
	}
	if ground && len(n.kids) > 1 {
		switch h {
		case "and", "or", "not", "=>", "=", "ite", "!", "distinct":
		default:
			s := n.String()
			if !seen[s] {
				seen[s] = true
				idx[h] = append(idx[h], n)
			}
		}
	}
	return ground
}

const preInstMax = 400

// preInstantiate transforms a script as described above. ok is false when nothing was added.
func preInstantiate(script string) (string, bool) {
	lines := strings.Split(script, "\n")
	var assertIdx []int
	checkLine := -1
	for i, l := range lines {
		if strings.HasPrefix(l, "(assert ") {
			assertIdx = append(assertIdx, i)
		}
		if strings.HasPrefix(l, "(check-sat") {
			checkLine = i
		}
	}
	if len(assertIdx) == 0 || checkLine < 0 {
		return "", false
	}
	goalLine := assertIdx[len(assertIdx)-1]
	if !strings.HasPrefix(lines[goalLine], "(assert (not ") {
		return "", false
	}
	var extraDecl, extraAss []string
	// decompose the negated goal by polarity: universals of the goal and existentials of
	// assumptions are skolemized, conjunctions are split; what remains is asserted as it is
	g := parseSx(lines[goalLine])
	if g == nil || len(g.kids) != 2 || len(g.kids[1].kids) != 2 {
		return "", false
	}
	nsk := 0
	changedGoal := false
	skolem := func(binders *sx, body *sx) *sx {
		m := map[string]*sx{}
		for _, b := range binders.kids {
			nsk++
			name := fmt.Sprintf("sk!%d", nsk)
			extraDecl = append(extraDecl, fmt.Sprintf("(declare-const %s %s)", name, b.kids[1].String()))
			m[b.kids[0].atom] = &sx{atom: name}
		}
		changedGoal = true
		return sxSubst(body, m)
	}
	// skolemizeAll replaces, in an assumption, the existentials in positive position (and the
	// universals in negative position) that are not below a binder that stays by fresh constants
	var skolemizeAll func(n *sx, pos bool, depth int) *sx
	skolemizeAll = func(n *sx, pos bool, depth int) *sx {
		if n.isAtom() || depth > 40 {
			return n
		}
		h := n.head()
		switch h {
		case "and", "or":
			out := &sx{kids: make([]*sx, len(n.kids))}
			out.kids[0] = n.kids[0]
			for i := 1; i < len(n.kids); i++ {
				out.kids[i] = skolemizeAll(n.kids[i], pos, depth+1)
			}
			return out
		case "not":
			if len(n.kids) == 2 {
				return &sx{kids: []*sx{n.kids[0], skolemizeAll(n.kids[1], !pos, depth+1)}}
			}
		case "=>":
			if len(n.kids) == 3 {
				return &sx{kids: []*sx{n.kids[0], skolemizeAll(n.kids[1], !pos, depth+1), skolemizeAll(n.kids[2], pos, depth+1)}}
			}
		case "!":
			if len(n.kids) >= 2 {
				b, _ := stripBang(n)
				return skolemizeAll(b, pos, depth+1)
			}
		case "exists":
			if pos && len(n.kids) == 3 {
				return skolemizeAll(skolem(n.kids[1], n.kids[2]), pos, depth+1)
			}
		case "forall":
			if !pos && len(n.kids) == 3 {
				return skolemizeAll(skolem(n.kids[1], n.kids[2]), pos, depth+1)
			}
		}
		return n
	}
	var pieces []*sx // assumptions obtained from the negated goal
	var assertPos, assertNeg func(n *sx, depth int)
	assertPos = func(n *sx, depth int) {
		n, _ = stripBang(n)
		if !n.isAtom() && depth < 12 {
			switch n.head() {
			case "and":
				for _, k := range n.kids[1:] {
					assertPos(k, depth+1)
				}
				return
			case "exists":
				if len(n.kids) == 3 {
					assertPos(skolem(n.kids[1], n.kids[2]), depth+1)
					return
				}
			case "not":
				if len(n.kids) == 2 {
					assertNeg(n.kids[1], depth+1)
					return
				}
			}
		}
		pieces = append(pieces, n)
	}
	assertNeg = func(n *sx, depth int) {
		n, _ = stripBang(n)
		if !n.isAtom() && depth < 12 {
			switch n.head() {
			case "forall":
				if len(n.kids) == 3 {
					assertNeg(skolem(n.kids[1], n.kids[2]), depth+1)
					return
				}
			case "=>":
				if len(n.kids) == 3 {
					assertPos(n.kids[1], depth+1)
					assertNeg(n.kids[2], depth+1)
					return
				}
			case "or":
				for _, k := range n.kids[1:] {
					assertNeg(k, depth+1)
				}
				return
			case "not":
				if len(n.kids) == 2 {
					assertPos(n.kids[1], depth+1)
					return
				}
			case "exists":
				if len(n.kids) == 3 {
					body, _ := stripBang(n.kids[2])
					pieces = append(pieces, &sx{kids: []*sx{{atom: "forall"}, n.kids[1], {kids: []*sx{{atom: "not"}, body}}}})
					changedGoal = true
					return
				}
			}
		}
		pieces = append(pieces, &sx{kids: []*sx{{atom: "not"}, n}})
	}
	assertNeg(g.kids[1].kids[1], 0)
	for _, pc := range pieces {
		extraAss = append(extraAss, pc.String())
	}
	// ground terms; intermediate values are named by assumptions (= name!k expr): the terms are
	// also indexed with those names expanded, so that a pattern can match through a name
	idx := map[string][]*sx{}
	seen := map[string]bool{}
	var quants []*qAssump
	defs := map[string]*sx{}
	var parsed []*sx
	for _, li := range assertIdx[:len(assertIdx)-1] {
		a := parseSx(lines[li])
		if a == nil || len(a.kids) != 2 {
			continue
		}
		b := a.kids[1]
		if q := asQuant(b); q != nil {
			quants = append(quants, q)
		}
		if !b.isAtom() && b.head() == "=" && len(b.kids) == 3 && b.kids[1].isAtom() && strings.Contains(b.kids[1].atom, "!") && !b.kids[2].isAtom() {
			if _, dup := defs[b.kids[1].atom]; !dup && len(lines[li]) < 4000 {
				defs[b.kids[1].atom] = b.kids[2]
			}
		} else if len(lines[li]) < 20000 && os.Getenv("ARKVC_NO_EQHINTS") == "" {
			// equalities between a name and a compound term inside conjunctions / guarded facts
			// (e.g. an invariant "curr == &g.nodes[curr.id]"): used as matching hints only, which
			// is always sound because any instance of an assumption is a consequence of it
			var walk func(n *sx, depth int)
			walk = func(n *sx, depth int) {
				if n.isAtom() || depth > 6 {
					return
				}
				switch n.head() {
				case "and":
					for _, k := range n.kids[1:] {
						walk(k, depth+1)
					}
				case "=>":
					if len(n.kids) == 3 {
						walk(n.kids[2], depth+1)
					}
				case "=":
					if len(n.kids) == 3 {
						x, y := n.kids[1], n.kids[2]
						if !x.isAtom() && y.isAtom() {
							x, y = y, x
						}
						if x.isAtom() && strings.Contains(x.atom, "!") && !y.isAtom() && (y.head() == "elemptr" || y.head() == "fieldptr") {
							if _, dup := defs[x.atom]; !dup {
								defs[x.atom] = y
							}
						}
					}
				}
			}
			walk(b, 0)
		}
		parsed = append(parsed, b)
	}
	// a name defined by (ite c A (ite d B C)) stands for one of A, B, C: variant j of the
	// expansion replaces every such name by its j-th alternative
	maxAlts := 1
	alts := map[string][]*sx{}
	for name, d := range defs {
		if d.head() != "ite" {
			continue
		}
		var leaves []*sx
		var walk func(n *sx)
		walk = func(n *sx) {
			if !n.isAtom() && n.head() == "ite" && len(n.kids) == 4 {
				walk(n.kids[2])
				walk(n.kids[3])
				return
			}
			if n.isAtom() && (n.atom == "nilslice" || n.atom == "nilptr") {
				return
			}
			leaves = append(leaves, n)
		}
		walk(d)
		if len(leaves) > 0 && len(leaves) <= 4 {
			alts[name] = leaves
			if len(leaves) > maxAlts {
				maxAlts = len(leaves)
			}
		}
	}
	expand := func(n *sx, j int) *sx {
		orig := n
		m := defs
		if len(alts) > 0 {
			m = map[string]*sx{}
			for k, v := range defs {
				m[k] = v
			}
			for k, ls := range alts {
				if j < len(ls) {
					m[k] = ls[j]
				} else {
					m[k] = ls[len(ls)-1]
				}
			}
		}
		for d := 0; d < 4; d++ {
			// names defined in terms of other names make the expansion grow geometrically
			// (struct values built field by field); stop before it gets out of hand
			if sxSize(n, expandLimit) >= expandLimit {
				break
			}
			r := sxSubst(n, m)
			if r == n {
				break
			}
			n = r
		}
		if sxSize(n, expandLimit*4) >= expandLimit*4 {
			return orig
		}
		return sxSimp(n)
	}
	// patterns are matched in their written form and with their names expanded
	for _, q := range quants {
		np := len(q.pats)
		for pi := 0; pi < np; pi++ {
			for j := 0; j < maxAlts; j++ {
				if e := expand(q.pats[pi], j); e.String() != q.pats[pi].String() && len(q.pats) < 12 {
					q.pats = append(q.pats, e)
				}
			}
		}
	}
	addGround := func(n *sx) {
		collectGround(n, map[string]bool{}, idx, seen)
		if len(defs) > 0 {
			for j := 0; j < maxAlts; j++ {
				if e := expand(n, j); e != n {
					collectGround(e, map[string]bool{}, idx, seen)
				}
			}
		}
	}
	for _, b := range parsed {
		if asQuant(b) != nil {
			collectGround(b, map[string]bool{}, idx, seen)
			continue
		}
		addGround(b)
	}
	for _, pc := range pieces {
		if q := asQuant(pc); q != nil {
			np := len(q.pats)
			for pi := 0; pi < np; pi++ {
				for j := 0; j < maxAlts; j++ {
					if e := expand(q.pats[pi], j); e.String() != q.pats[pi].String() && len(q.pats) < 12 {
						q.pats = append(q.pats, e)
					}
				}
			}
			quants = append(quants, q)
			collectGround(pc, map[string]bool{}, idx, seen)
			continue
		}
		addGround(pc)
	}
	if len(quants) == 0 {
		if !changedGoal {
			return "", false
		}
	}
	done := map[string]bool{}
	var insts []string
	for round := 0; round < 2 && len(insts) < preInstMax; round++ {
		var newTerms []*sx
		for qi, q := range quants {
			vars := map[string]bool{}
			for _, v := range q.vars {
				vars[v] = true
			}
			for _, p := range q.pats {
				if p.isAtom() {
					continue
				}
				for _, t := range idx[p.head()] {
					m := map[string]*sx{}
					if !sxMatch(p, t, vars, m) || len(m) != len(q.vars) {
						continue
					}
					var key strings.Builder
					fmt.Fprintf(&key, "%d", qi)
					for _, v := range q.vars {
						key.WriteByte('|')
						key.WriteString(m[v].String())
					}
					if done[key.String()] {
						continue
					}
					done[key.String()] = true
					inst := skolemizeAll(sxSubst(q.body, m), true, 0)
					s := inst.String()
					if q.guard != nil {
						s = "(=> " + q.guard.String() + " " + s + ")"
					}
					insts = append(insts, s)
					newTerms = append(newTerms, inst)
					if len(insts) >= preInstMax {
						break
					}
				}
				if len(insts) >= preInstMax {
					break
				}
			}
			if len(insts) >= preInstMax {
				break
			}
		}
		if len(newTerms) == 0 {
			break
		}
		for _, t := range newTerms {
			addGround(t)
		}
	}
	if len(insts) == 0 && !changedGoal {
		return "", false
	}
	var sb strings.Builder
	for i, l := range lines {
		if i == goalLine {
			for _, d := range extraDecl {
				sb.WriteString(d)
				sb.WriteByte('\n')
			}
			for _, a := range extraAss {
				sb.WriteString("(assert " + a + ")\n")
			}
			for _, a := range insts {
				sb.WriteString("(assert " + a + ")\n")
			}
			continue
		}
		sb.WriteString(l)
		if i < len(lines)-1 {
			sb.WriteByte('\n')
		}
	}
	return sb.String(), true
}
