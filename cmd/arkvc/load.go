package main

import (
	"regexp"
	"fmt"
	"go/ast"
	"go/token"
	"go/types"
	"os"
	"path/filepath"
	"sort"
	"strings"

	"golang.org/x/tools/go/packages"
	"golang.org/x/tools/go/ssa"
	"golang.org/x/tools/go/ssa/ssautil"
)

type Loaded struct {
	Fset     *token.FileSet
	Pkg      *packages.Package
	Prog     *ssa.Program
	SPkg     *ssa.Package
	Con      *Contracts
	Funcs    map[string]*ssa.Function // by RelString
	Overlay  string                   // text of generated file
	Tags     string
	AssertVars map[string][]loopVar // assert clause function -> its parameters (function parameters and top-level locals)
	LoopVars map[string][]loopInfo // target func -> loops in source order
	Stale    []string              // contract problems (stale contracts)
	Repo     string
}

type loopInfo struct {
	File     string
	Pos, End int          // byte offsets in File (positions of another FileSet are not comparable)
	Vars     []loopVar    // variables visible at the loop (params, results, locals)
}

// loopVar identifies a source variable by name and declaration position, so that it can be
// matched against objects of a different type-checking run.
type loopVar struct {
	Name string
	File string
	Off  int
	Type types.Type
}

const overlayName = "verif_generated_specs.go"

func loadPackage(repo string, tags string, overlay map[string][]byte, needSSA bool) (*packages.Package, error) {
	mode := packages.NeedName | packages.NeedFiles | packages.NeedCompiledGoFiles | packages.NeedImports |
		packages.NeedTypes | packages.NeedTypesSizes | packages.NeedSyntax | packages.NeedTypesInfo | packages.NeedDeps
	cfg := &packages.Config{Mode: mode, Dir: repo, BuildFlags: []string{"-tags=" + tags}, Overlay: overlay,
		Env: append(os.Environ(), "GOFLAGS=-mod=mod", "GOPROXY=off", "GOTOOLCHAIN=local", "PATH=/opt/veriftools/go1.26.8/bin:"+os.Getenv("PATH"))}
	pkgs, err := packages.Load(cfg, "./ecs")
	if err != nil {
		return nil, err
	}
	if len(pkgs) != 1 {
		return nil, fmt.Errorf("expected one package, got %d", len(pkgs))
	}
	return pkgs[0], nil
}

func relName(fn *ssa.Function, pkg *types.Package) string {
	return fn.RelString(pkg)
}

// Load parses contracts, generates the overlay, loads the package with it and builds SSA.
func Load(repo, tags string) (*Loaded, error) {
	con, err := parseContracts(filepath.Join(repo, "ecs"), tags)
	if err != nil {
		return nil, err
	}
	p1, err := loadPackage(repo, tags, nil, false)
	if err != nil {
		return nil, err
	}
	if len(p1.Errors) > 0 {
		return nil, fmt.Errorf("package does not type-check: %v", p1.Errors[0])
	}
	applyKnown(con, preLoadKnown)
	L := &Loaded{Con: con, Tags: tags, LoopVars: map[string][]loopInfo{}, AssertVars: map[string][]loopVar{}, Repo: repo}
	ov, stale := genOverlay(p1, con, L)
	L.Stale = append(L.Stale, stale...)
	L.Stale = append(L.Stale, con.Errors...)
	L.Overlay = ov
	path := filepath.Join(repo, "ecs", overlayName)
	// Iterate: drop clauses that do not type-check (stale) and reload, so one bad clause does
	// not take the whole run down.
	for iter := 0; iter < 6; iter++ {
		p2, err := loadPackage(repo, tags, map[string][]byte{path: []byte(L.Overlay)}, true)
		if err != nil {
			return nil, err
		}
		if len(p2.Errors) == 0 {
			L.Pkg = p2
			break
		}
		bad := map[int]bool{}
		for _, e := range p2.Errors {
			// position file:line:col
			parts := strings.Split(e.Pos, ":")
			if len(parts) >= 2 && strings.HasSuffix(parts[0], overlayName) {
				var ln int
				fmt.Sscanf(parts[1], "%d", &ln)
				bad[ln] = true
				L.Stale = append(L.Stale, fmt.Sprintf("spec does not type-check: %s (%s)", e.Msg, overlayOrigin(L.Overlay, ln)))
			} else {
				return nil, fmt.Errorf("package error: %s: %s", e.Pos, e.Msg)
			}
		}
		L.Overlay = dropOverlayLines(L.Overlay, bad, con)
	}
	if L.Pkg == nil {
		return nil, fmt.Errorf("could not produce a type-correct overlay: %v", L.Stale)
	}
	L.Fset = L.Pkg.Fset
	prog, spkgs := ssautil.AllPackages([]*packages.Package{L.Pkg}, ssa.GlobalDebug|ssa.InstantiateGenerics)
	prog.Build()
	L.Prog, L.SPkg = prog, spkgs[0]
	L.Funcs = map[string]*ssa.Function{}
	for fn := range ssautil.AllFunctions(prog) {
		if fn.Pkg == L.SPkg || (fn.Origin() != nil && fn.Origin().Pkg == L.SPkg) {
			L.Funcs[fn.RelString(L.SPkg.Pkg)] = fn
		}
	}
	// methods and functions that nothing references are not "reachable" for AllFunctions
	var addFn func(fn *ssa.Function)
	addFn = func(fn *ssa.Function) {
		if fn == nil {
			return
		}
		n := fn.RelString(L.SPkg.Pkg)
		if _, ok := L.Funcs[n]; !ok {
			L.Funcs[n] = fn
		}
		for _, a := range fn.AnonFuncs {
			addFn(a)
		}
	}
	// every function declaration of the package, including methods of generic types
	for _, file := range L.Pkg.Syntax {
		for _, d := range file.Decls {
			if fd, ok := d.(*ast.FuncDecl); ok {
				if obj, ok := L.Pkg.TypesInfo.Defs[fd.Name].(*types.Func); ok {
					addFn(prog.FuncValue(obj))
				}
			}
		}
	}
	for _, m := range L.SPkg.Members {
		switch mm := m.(type) {
		case *ssa.Function:
			addFn(mm)
		case *ssa.Type:
			for _, t := range []types.Type{mm.Type(), types.NewPointer(mm.Type())} {
				ms := prog.MethodSets.MethodSet(t)
				for i := 0; i < ms.Len(); i++ {
					if f := prog.MethodValue(ms.At(i)); f != nil && f.Synthetic == "" {
						addFn(f)
					}
				}
			}
		}
	}
	return L, nil
}

func overlayOrigin(ov string, line int) string {
	lines := strings.Split(ov, "\n")
	for i := line - 1; i >= 0 && i < len(lines); i-- {
		if strings.HasPrefix(lines[i], "//origin ") {
			return strings.TrimPrefix(lines[i], "//origin ")
		}
	}
	return "?"
}

// dropOverlayLines replaces the generated function containing a bad line by a stub and marks
// the originating clause as stale.
func dropOverlayLines(ov string, bad map[int]bool, con *Contracts) string {
	lines := strings.Split(ov, "\n")
	// functions are laid out as: //origin ...\nfunc ... {\n body \n}\n
	for ln := range bad {
		i := ln - 1
		for i >= 0 && !strings.HasPrefix(lines[i], "//origin ") {
			i--
		}
		if i < 0 {
			continue
		}
		j := i + 1
		for j < len(lines) && lines[j] != "}" {
			j++
		}
		// mark clause stale by name
		hdr := lines[i+1]
		name := strings.TrimPrefix(hdr, "func ")
		if k := strings.IndexAny(name, "(["); k >= 0 {
			name = name[:k]
		}
		staleFuncs[name] = true
		for k := i + 1; k <= j && k < len(lines); k++ {
			lines[k] = "//stale"
		}
	}
	return strings.Join(lines, "\n")
}

var staleFuncs = map[string]bool{}

// ---- overlay generation ---------------------------------------------------------------------

type ovGen struct {
	pkg     *packages.Package
	imports map[string]string // path -> name
	sb      strings.Builder
	n       int
}

func (g *ovGen) qual(p *types.Package) string {
	if p == g.pkg.Types {
		return ""
	}
	g.imports[p.Path()] = p.Name()
	return p.Name()
}

func (g *ovGen) typ(t types.Type) string { return types.TypeString(t, g.qual) }

// lookupFunc resolves a contract target to a types.Func (closures: not here).
func lookupFunc(pkg *types.Package, target string) *types.Func {
	t := target
	if strings.HasPrefix(t, "(") {
		i := strings.Index(t, ").")
		if i < 0 {
			return nil
		}
		recv := strings.TrimPrefix(t[1:i], "*")
		targs := ""
		if k := strings.Index(recv, "["); k >= 0 {
			targs = recv[k+1 : len(recv)-1]
			recv = recv[:k]
		}
		m := t[i+2:]
		obj := pkg.Scope().Lookup(recv)
		if obj == nil {
			return nil
		}
		named, ok := obj.Type().(*types.Named)
		if !ok {
			return nil
		}
		if targs != "" && named.TypeParams() != nil {
			// instantiate when the arguments are concrete types of the package or universe
			var tl []types.Type
			concrete := true
			for _, a := range strings.Split(targs, ",") {
				a = strings.TrimSpace(a)
				var o types.Object
				if o = pkg.Scope().Lookup(a); o == nil {
					o = types.Universe.Lookup(a)
				}
				if tn, ok := o.(*types.TypeName); ok {
					tl = append(tl, tn.Type())
				} else {
					concrete = false
				}
			}
			if concrete && len(tl) == named.TypeParams().Len() {
				if inst, err := types.Instantiate(nil, named, tl, false); err == nil {
					named = inst.(*types.Named)
				}
			}
		}
		for i := 0; i < named.NumMethods(); i++ {
			if named.Method(i).Name() == m {
				return named.Method(i)
			}
		}
		return nil
	}
	if k := strings.Index(t, "["); k >= 0 {
		t = t[:k]
	}
	if f, ok := pkg.Scope().Lookup(t).(*types.Func); ok {
		return f
	}
	return nil
}

func findFuncDecl(p *packages.Package, f *types.Func) *ast.FuncDecl {
	for _, file := range p.Syntax {
		for _, d := range file.Decls {
			if fd, ok := d.(*ast.FuncDecl); ok && p.TypesInfo.Defs[fd.Name] == f {
				return fd
			}
		}
	}
	return nil
}

// sigParams renders the parameter list of the function for spec functions.
func (g *ovGen) sigParams(f *types.Func) (tparams string, params []string, results []string) {
	sig := f.Type().(*types.Signature)
	var tps []string
	addTP := func(l *types.TypeParamList) {
		for i := 0; i < l.Len(); i++ {
			tp := l.At(i)
			tps = append(tps, tp.Obj().Name()+" "+g.typ(tp.Constraint()))
		}
	}
	if sig.RecvTypeParams() != nil {
		addTP(sig.RecvTypeParams())
	}
	if sig.TypeParams() != nil {
		addTP(sig.TypeParams())
	}
	if len(tps) > 0 {
		tparams = "[" + strings.Join(tps, ", ") + "]"
	}
	if r := sig.Recv(); r != nil {
		n := r.Name()
		if n == "" || n == "_" {
			n = "_recv"
		}
		params = append(params, n+" "+g.typ(r.Type()))
	}
	for i := 0; i < sig.Params().Len(); i++ {
		v := sig.Params().At(i)
		n := v.Name()
		if n == "" || n == "_" {
			n = fmt.Sprintf("_p%d", i)
		}
		params = append(params, n+" "+g.typ(v.Type()))
	}
	for i := 0; i < sig.Results().Len(); i++ {
		v := sig.Results().At(i)
		n := "result"
		if sig.Results().Len() > 1 {
			n = fmt.Sprintf("result%d", i)
		}
		results = append(results, n+" "+g.typ(v.Type()))
	}
	return
}

func genOverlay(p *packages.Package, con *Contracts, L *Loaded) (string, []string) {
	g := &ovGen{pkg: p, imports: map[string]string{}}
	var stale []string
	var body strings.Builder
	w := func(format string, a ...any) { fmt.Fprintf(&body, format, a...) }

	w("func __forall(f any) bool { return true }\n")
	w("func __exists(f any) bool { return true }\n")
	w("func __old[T any](x T) T { return x }\n")
	w("func __trigger(x ...any) bool { return true }\n")
	w("func __has[K comparable, V any](m map[K]V, k K) bool { return true }\n")
	w("func __get[K comparable, V any](m map[K]V, k K) V { var z V; return z }\n")
	w("func __same[T any](a, b T) bool { return true }\n")
	w("func __fresh(x any) bool { return true }\n")
	w("func __disjoint[T, U any](a []T, b []U) bool { return true }\n")
	w("func __samearray[T any](a, b []T) bool { return true }\n")
	w("func __unchanged() bool { return true }\n")
	// aliases for types whose names are commonly shadowed by parameter names
	for _, tn := range []string{"table", "archetype", "column", "filter", "cache", "lock", "node", "graph", "storage"} {
		if p.Types.Scope().Lookup(tn) != nil {
			w("type __T_%s = %s\n", tn, tn)
		}
	}
	w("\n")

	for _, d := range con.Decls {
		w("//origin %s %s (%s:%d)\n", d.Kind, d.Name, filepath.Base(d.File), d.Line)
		if d.Kind == "ghost" {
			w("func %s(%s) %s {\n\tpanic(0)\n}\n", d.Name, d.Params, d.Result)
			continue
		}
		e, err := rewriteSpec(d.Body)
		if err != nil {
			stale = append(stale, fmt.Sprintf("%s:%d: %v", d.File, d.Line, err))
			continue
		}
		w("func %s(%s) %s {\n\treturn %s\n}\n", d.Name, d.Params, d.Result, e)
	}
	for _, d := range con.Lemmas {
		e, err := rewriteSpec(d.Body)
		if err != nil {
			stale = append(stale, fmt.Sprintf("%s:%d: %v", d.File, d.Line, err))
			continue
		}
		w("//origin lemma %s (%s:%d)\n", d.Name, filepath.Base(d.File), d.Line)
		w("func __lemma_%s(%s) bool {\n\treturn %s\n}\n", d.Name, d.Params, e)
	}

	names := append([]string{}, con.Order...)
	sort.Strings(names)
	for _, name := range names {
		fs := con.Funcs[name]
		base := name
		closure := ""
		if i := strings.Index(name, "$"); i >= 0 {
			base, closure = name[:i], name[i:]
		}
		f := lookupFunc(p.Types, base)
		if f == nil {
			stale = append(stale, fmt.Sprintf("%s:%d: contract target %s not found in package", fs.File, fs.Line, name))
			fs.Flags["stale"] = true
			continue
		}
		if closure != "" {
			stale = append(stale, fmt.Sprintf("%s:%d: closure contracts not supported yet: %s", fs.File, fs.Line, name))
			fs.Flags["stale"] = true
			continue
		}
		tparams, params, results := g.sigParams(f)
		for i := range params {
			params[i] = strings.Replace(params[i], " ...", " []", 1)
		}
		fd := findFuncDecl(p, f)
		loops := collectLoops(p, fd)
		L.LoopVars[name] = loops
		for _, cl := range fs.Clauses {
			g.n++
			cl.FuncName = fmt.Sprintf("__c%d_%s", g.n, cl.Kind)
			origin := fmt.Sprintf("//origin %s %s %s (%s:%d)\n", name, cl.Kind, cl.Label, filepath.Base(cl.File), cl.Line)
			switch cl.Kind {
			case "assert":
				// assert <callee name> [label:] expr   -- checked and then assumed before each call of callee
				fs2 := strings.Fields(cl.Text)
				if len(fs2) < 2 {
					stale = append(stale, fmt.Sprintf("%s:%d: bad assert clause", cl.File, cl.Line))
					staleFuncs[cl.FuncName] = true
					continue
				}
				cl.Callee = strings.TrimSuffix(fs2[0], ":")
				rest := strings.TrimSpace(strings.TrimPrefix(cl.Text, fs2[0]))
				if m := reLabel.FindStringSubmatch(rest); m != nil {
					cl.Label = m[1]
					rest = rest[len(m[0]):]
				}
				e, err := rewriteSpec(rest)
				if err != nil {
					stale = append(stale, fmt.Sprintf("%s:%d: %v", cl.File, cl.Line, err))
					staleFuncs[cl.FuncName] = true
					continue
				}
				// parameters plus the function's top-level local variables (values at the call site)
				var aps []string
				seenA := map[string]bool{}
				var avars []loopVar
				var callSig *types.Signature
				if fd != nil && fd.Body != nil {
					at := fd.Body.Rbrace
					// the variables in scope at the first call of the callee (nested scopes included)
					if cl.Callee != "return" {
						found := false
						ast.Inspect(fd.Body, func(n ast.Node) bool {
							if found {
								return false
							}
							ce, ok := n.(*ast.CallExpr)
							if !ok {
								return true
							}
							nm := ""
							switch f := ce.Fun.(type) {
							case *ast.Ident:
								nm = f.Name
							case *ast.SelectorExpr:
								nm = f.Sel.Name
							}
							if nm == cl.Callee {
								at = ce.Pos()
								found = true
								if sg, ok := p.TypesInfo.TypeOf(ce.Fun).(*types.Signature); ok {
									callSig = sg
								}
								return false
							}
							return true
						})
					}
					avars = varsAt(p, fd, at, nil)
				}
				for _, v := range avars {
					if seenA[v.Name] || v.Name == "_" {
						continue
					}
					seenA[v.Name] = true
					aps = append(aps, v.Name+" "+strings.Replace(g.typ(v.Type), "...", "[]", 1))
				}
				// the arguments of the call, by position: __arg0, __arg1, ... (robust against renamed locals)
				cl.NArgs = 0
				if callSig != nil && strings.Contains(e, "__arg") && !callSig.Variadic() {
					for k := 0; k < callSig.Params().Len(); k++ {
						aps = append(aps, fmt.Sprintf("__arg%d %s", k, g.typ(callSig.Params().At(k).Type())))
					}
					cl.NArgs = callSig.Params().Len()
				}
				L.AssertVars[cl.FuncName] = avars
				w("%sfunc %s%s(%s) bool {\n\treturn %s\n}\n", origin, cl.FuncName, tparams, strings.Join(aps, ", "), e)
			case "requires", "panics", "assumes":
				e, err := rewriteSpec(cl.Text)
				if err != nil {
					stale = append(stale, fmt.Sprintf("%s:%d: %v", cl.File, cl.Line, err))
					staleFuncs[cl.FuncName] = true
					continue
				}
				w("%sfunc %s%s(%s) bool {\n\treturn %s\n}\n", origin, cl.FuncName, tparams, strings.Join(params, ", "), e)
			case "ensures", "xensures":
				e, err := rewriteSpec(cl.Text)
				if err != nil {
					stale = append(stale, fmt.Sprintf("%s:%d: %v", cl.File, cl.Line, err))
					staleFuncs[cl.FuncName] = true
					continue
				}
				ps := params
				if cl.Kind == "ensures" {
					ps = append(append([]string{}, params...), results...)
				}
				w("%sfunc %s%s(%s) bool {\n\treturn %s\n}\n", origin, cl.FuncName, tparams, strings.Join(ps, ", "), e)
			case "ghost":
				ps := append(append([]string{}, params...), results...)
				stmts := splitTop(cl.Text, ";")
				w("%sfunc %s%s(%s) {\n", origin, cl.FuncName, tparams, strings.Join(ps, ", "))
				for _, s := range stmts {
					s = strings.TrimSpace(s)
					if s == "" {
						continue
					}
					r, err := rewriteSpec(s)
					if err != nil {
						stale = append(stale, fmt.Sprintf("%s:%d: bad ghost statement", cl.File, cl.Line))
						continue
					}
					w("\t%s\n", r)
				}
				w("}\n")
			case "modifies":
				// one function per lvalue, returning (base, index) as interfaces
				lvs := splitTop(cl.Text, ",")
				ps := append(append([]string{}, params...), results...)
				w("%sfunc %s%s(%s) (__r []any) {\n", origin, cl.FuncName, tparams, strings.Join(ps, ", "))
				for _, lv := range lvs {
					lv = strings.TrimSpace(lv)
					if lv == "" || lv == "nothing" {
						continue
					}
					lvr, err := rewriteSpec(lv)
					if err != nil {
						stale = append(stale, fmt.Sprintf("%s:%d: %v", cl.File, cl.Line, err))
						continue
					}
					lv = lvr
					if k := strings.Index(lv, "[*]."); k >= 0 && !strings.Contains(lv[k+4:], "[") {
						// x[*].f.g : field f.g of every element of slice x
						w("\t__r = append(__r, \"allfield\", any(%s), %q)\n", lv[:k], lv[k+4:])
					} else if strings.HasSuffix(lv, "]") {
						i := lastOpen(lv)
						b, idx := lv[:i], lv[i+1:len(lv)-1]
						if strings.TrimSpace(idx) == "*" {
							w("\t__r = append(__r, \"all\", any(%s))\n", b)
						} else if k := indexTop(idx, ".."); k >= 0 {
							w("\t__r = append(__r, \"range\", any(%s), any(%s), any(%s))\n", b, idx[:k], idx[k+2:])
						} else {
							w("\t__r = append(__r, \"index\", any(%s), any(%s))\n", b, idx)
						}
					} else {
						w("\t__r = append(__r, \"addr\", any(&%s))\n", lv)
					}
				}
				w("\treturn\n}\n")
			case "invariant", "decreases", "fires":
				if cl.Loop < 1 || cl.Loop > len(loops) {
					stale = append(stale, fmt.Sprintf("%s:%d: function %s has %d loops, clause names loop %d", cl.File, cl.Line, name, len(loops), cl.Loop))
					staleFuncs[cl.FuncName] = true
					continue
				}
				e, err := rewriteSpec(cl.Text)
				if err != nil {
					stale = append(stale, fmt.Sprintf("%s:%d: %v", cl.File, cl.Line, err))
					staleFuncs[cl.FuncName] = true
					continue
				}
				li := loops[cl.Loop-1]
				var ps []string
				seen := map[string]bool{}
				for _, v := range li.Vars {
					if seen[v.Name] || v.Name == "_" {
						continue
					}
					seen[v.Name] = true
					ps = append(ps, v.Name+" "+strings.Replace(g.typ(v.Type), "...", "[]", 1))
				}
				ps = append(ps, "__idx int") // number of elements a range loop has finished
				// parameters are mutable: inside old(...) a parameter name means its entry value
				var pnames []string
				for _, pr := range params {
					nm := strings.Fields(pr)[0]
					pnames = append(pnames, nm)
					ps = append(ps, "__entry_"+pr)
				}
				e = entryInOld(e, pnames)
				rt := "bool"
				if cl.Kind == "decreases" {
					rt = "uint64"
				}
				w("%sfunc %s%s(%s) %s {\n\treturn %s\n}\n", origin, cl.FuncName, tparams, strings.Join(ps, ", "), rt, e)
			}
		}
	}
	var hdr strings.Builder
	hdr.WriteString("//go:build verif\n\npackage ecs\n\n")
	g.imports["math/bits"] = "bits"
	g.imports["unsafe"] = "unsafe"
	g.imports["reflect"] = "reflect"
	body.WriteString("\nvar _ = bits.OnesCount64\nvar _ unsafe.Pointer\nvar _ reflect.Type\n")
	var imps []string
	for path := range g.imports {
		imps = append(imps, path)
	}
	sort.Strings(imps)
	for _, path := range imps {
		fmt.Fprintf(&hdr, "import %q\n", path)
	}
	hdr.WriteString("\n")
	return hdr.String() + body.String(), stale
}

// entryInOld rewrites, inside every __old(...) of a loop clause, the bare names of the function's
// parameters to their entry-value parameters (__entry_<name>).
func entryInOld(e string, pnames []string) string {
	var sb strings.Builder
	i := 0
	for i < len(e) {
		j := strings.Index(e[i:], "__old(")
		if j < 0 {
			sb.WriteString(e[i:])
			break
		}
		j += i
		sb.WriteString(e[i : j+6])
		depth, k := 1, j+6
		for k < len(e) && depth > 0 {
			switch e[k] {
			case '(':
				depth++
			case ')':
				depth--
			}
			k++
		}
		inner := e[j+6 : k-1]
		for _, pn := range pnames {
			if pn == "_" || pn == "" {
				continue
			}
			re := regexp.MustCompile(`(^|[^A-Za-z0-9_.])` + regexp.QuoteMeta(pn) + `\b`)
			inner = re.ReplaceAllString(inner, "${1}__entry_"+pn)
		}
		sb.WriteString(inner)
		sb.WriteString(")")
		i = k
	}
	return sb.String()
}

func lastOpen(s string) int {
	depth := 0
	for i := len(s) - 1; i >= 0; i-- {
		switch s[i] {
		case ']', ')', '}':
			depth++
		case '[', '(', '{':
			depth--
			if depth == 0 {
				return i
			}
		}
	}
	return -1
}

// collectLoops lists the for/range statements of a function in source order with the
// variables in scope at each.
func collectLoops(p *packages.Package, fd *ast.FuncDecl) []loopInfo {
	if fd == nil || fd.Body == nil {
		return nil
	}
	var loops []loopInfo
	var visit func(n ast.Node) bool
	visit = func(n ast.Node) bool {
		switch s := n.(type) {
		case *ast.FuncLit:
			return false
		case *ast.ForStmt:
			loops = append(loops, loopInfo{File: p.Fset.Position(s.Pos()).Filename, Pos: p.Fset.Position(s.Pos()).Offset, End: p.Fset.Position(s.End()).Offset, Vars: varsAt(p, fd, s.Body.Lbrace+1, s)})
		case *ast.RangeStmt:
			loops = append(loops, loopInfo{File: p.Fset.Position(s.Pos()).Filename, Pos: p.Fset.Position(s.Pos()).Offset, End: p.Fset.Position(s.End()).Offset, Vars: varsAt(p, fd, s.Body.Lbrace+1, s)})
		}
		return true
	}
	ast.Inspect(fd.Body, visit)
	return loops
}

func varsAt(p *packages.Package, fd *ast.FuncDecl, pos token.Pos, loop ast.Node) []loopVar {
	var out []loopVar
	for _, v := range varsAt0(p, fd, pos, loop) {
		pp := p.Fset.Position(v.Pos())
		out = append(out, loopVar{Name: v.Name(), File: pp.Filename, Off: pp.Offset, Type: v.Type()})
	}
	return out
}

func varsAt0(p *packages.Package, fd *ast.FuncDecl, pos token.Pos, loop ast.Node) []*types.Var {
	fscope := p.TypesInfo.Scopes[fd.Type]
	if fscope == nil {
		return nil
	}
	inner := fscope.Innermost(pos)
	var out []*types.Var
	seen := map[string]bool{}
	for s := inner; s != nil; s = s.Parent() {
		for _, n := range s.Names() {
			obj := s.Lookup(n)
			v, ok := obj.(*types.Var)
			if !ok || seen[n] {
				continue
			}
			// visible if declared before the loop body start, or in the loop's own scope
			if v.Pos() < pos {
				seen[n] = true
				out = append(out, v)
			}
		}
		if s == fscope {
			break
		}
	}
	sort.Slice(out, func(i, j int) bool { return out[i].Pos() < out[j].Pos() })
	return out
}
