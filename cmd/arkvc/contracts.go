package main

// Contract files: comment-only Go files in /repo/ecs named verif_contracts_*.go, guarded by
// the build tag "verif". Every line of interest starts with "//@". This file parses them into
// items and turns every specification expression into a Go function in a generated overlay
// file, so that go/types checks it against the real package and go/ssa compiles it with the
// same semantics the verifier applies to the code under proof.

import (
	"fmt"
	"go/build/constraint"
	"os"
	"path/filepath"
	"regexp"
	"sort"
	"strings"
)

type Clause struct {
	NArgs    int // assert clauses: number of positional call arguments (__argK) appended to the parameters
	Kind  string // requires ensures xensures panics modifies ghost invariant decreases assert serves inline dataplane dependency trusted
	Loop  int    // for invariant/decreases: loop ordinal (1-based)
	Label string // optional label
	Text  string // expression text (spec syntax)
	Callee string // assert clauses: name of the callee before whose calls the assertion is placed
	File  string
	Line  int
	// filled by overlay generation
	FuncName string // name of the generated Go function
}

type FuncSpec struct {
	Target  string // as printed by go/ssa without package path, e.g. (*entityPool).Recycle
	Clauses []*Clause
	Serves  []string
	Flags   map[string]bool
	TP      map[string]string // type parameter instantiation for verification
	File    string
	Line    int
}

type SpecDecl struct {
	Kind   string // pred | spec | ghost | lemma
	Name   string
	Params string // Go parameter list text, without parens
	Result string // Go result type text
	Body   string // spec expression text ("" for ghost)
	Serves []string
	File   string
	Line   int
}

type Contracts struct {
	Funcs  map[string]*FuncSpec
	Order  []string
	Decls  []*SpecDecl
	Lemmas []*SpecDecl
	Files  []string
	Errors []string
}

var clauseKW = map[string]bool{"assumes": true, "requires": true, "ensures": true, "xensures": true, "panics": true,
	"modifies": true, "ghost": true, "loop": true, "serves": true, "inline": true, "dataplane": true,
	"dependency": true, "trusted": true, "posttrusted": true, "assert": true, "callback": true, "noinline": true, "pure": true, "typeparams": true, "xpure": true, "callbackframe": true, "maypanic": true, "lockedcallbacks": true, "mayfault": true}

var reLabel = regexp.MustCompile(`^([A-Za-z_][A-Za-z0-9_.\-]*):\s+`)

func parseContracts(dir string, tags string) (*Contracts, error) {
	files, _ := filepath.Glob(filepath.Join(dir, "verif_contracts_*.go"))
	sort.Strings(files)
	c := &Contracts{Funcs: map[string]*FuncSpec{}, Files: files}
	for _, f := range files {
		data, err := os.ReadFile(f)
		if err != nil {
			return nil, err
		}
		if !buildTagsOK(string(data), tags) {
			continue
		}
		var cur *FuncSpec
		var curClause *Clause
		var curDecl *SpecDecl
		for i, raw := range strings.Split(string(data), "\n") {
			line := strings.TrimSpace(raw)
			if !strings.HasPrefix(line, "//@") {
				if line == "" || !strings.HasPrefix(line, "//") {
					curClause, curDecl = nil, nil
				}
				continue
			}
			body := strings.TrimPrefix(line, "//@")
			if i := strings.Index(body, " //"); i >= 0 { // trailing comment
				body = body[:i]
			}
			txt := strings.TrimSpace(body)
			if txt == "" {
				continue
			}
			first := strings.Fields(txt)[0]
			switch {
			case first == "func":
				name := strings.TrimSpace(strings.TrimPrefix(txt, "func"))
				cur = &FuncSpec{Target: name, Flags: map[string]bool{}, File: f, Line: i + 1}
				if _, dup := c.Funcs[name]; dup {
					c.Errors = append(c.Errors, fmt.Sprintf("%s:%d: duplicate contract for %s", f, i+1, name))
				}
				c.Funcs[name] = cur
				c.Order = append(c.Order, name)
				curClause, curDecl = nil, nil
			case first == "pred" || first == "spec" || first == "ghost" && strings.HasPrefix(txt, "ghost func") || first == "lemma":
				d, err := parseDecl(txt)
				if err != nil {
					c.Errors = append(c.Errors, fmt.Sprintf("%s:%d: %v", f, i+1, err))
					continue
				}
				d.File, d.Line = f, i+1
				if d.Kind == "lemma" {
					c.Lemmas = append(c.Lemmas, d)
				} else {
					c.Decls = append(c.Decls, d)
				}
				curDecl, curClause, cur = d, nil, nil
			case clauseKW[first] && cur != nil:
				rest := strings.TrimSpace(strings.TrimPrefix(txt, first))
				cl := &Clause{Kind: first, File: f, Line: i + 1}
				switch first {
				case "serves":
					cur.Serves = append(cur.Serves, strings.Fields(rest)...)
					curClause = nil
					continue
				case "typeparams":
					cur.Flags[first] = true
					cur.TP = map[string]string{}
					for _, kv := range strings.Fields(rest) {
						if i := strings.Index(kv, "="); i > 0 {
							cur.TP[kv[:i]] = kv[i+1:]
						}
					}
					curClause = nil
					continue
				case "inline", "dataplane", "dependency", "trusted", "posttrusted", "noinline", "pure", "callback", "xpure", "callbackframe", "maypanic", "lockedcallbacks", "mayfault":
					cur.Flags[first] = true
					if rest != "" {
						cl.Text = rest
						cur.Clauses = append(cur.Clauses, cl)
					}
					curClause = nil
					continue
				case "loop":
					// loop N invariant|decreases ...
					var n int
					var k string
					fs := strings.Fields(rest)
					if len(fs) < 2 {
						c.Errors = append(c.Errors, fmt.Sprintf("%s:%d: bad loop clause", f, i+1))
						continue
					}
					fmt.Sscanf(fs[0], "%d", &n)
					k = fs[1]
					cl.Kind, cl.Loop = k, n
					rest = strings.TrimSpace(strings.TrimPrefix(strings.TrimSpace(strings.TrimPrefix(rest, fs[0])), k))
				}
				if m := reLabel.FindStringSubmatch(rest); m != nil && !strings.HasPrefix(rest, "forall") && first != "assert" {
					cl.Label = m[1]
					rest = rest[len(m[0]):]
				}
				cl.Text = rest
				cur.Clauses = append(cur.Clauses, cl)
				curClause, curDecl = cl, nil
			default:
				// continuation
				if curClause != nil {
					curClause.Text += " " + txt
				} else if curDecl != nil {
					curDecl.Body += " " + txt
				} else {
					c.Errors = append(c.Errors, fmt.Sprintf("%s:%d: stray contract line: %s", f, i+1, txt))
				}
			}
		}
	}
	return c, nil
}

// buildTagsOK evaluates the //go:build line of a contract file against the active tags.
func buildTagsOK(src, tags string) bool {
	set := map[string]bool{}
	for _, t := range strings.Split(tags, ",") {
		set[strings.TrimSpace(t)] = true
	}
	for _, line := range strings.Split(src, "\n") {
		if constraint.IsGoBuild(line) {
			e, err := constraint.Parse(line)
			if err != nil {
				return true
			}
			return e.Eval(func(tag string) bool { return set[tag] })
		}
		if strings.HasPrefix(line, "package ") {
			break
		}
	}
	return true
}

var reDecl = regexp.MustCompile(`^(pred|spec func|ghost func|lemma)\s+([A-Za-z_][A-Za-z0-9_]*)\s*\(([^)]*)\)\s*([^:]*?)\s*(?::=\s*(.*))?$`)

func parseDecl(txt string) (*SpecDecl, error) {
	m := reDecl.FindStringSubmatch(txt)
	if m == nil {
		return nil, fmt.Errorf("cannot parse declaration: %s", txt)
	}
	d := &SpecDecl{Name: m[2], Params: m[3], Result: strings.TrimSpace(m[4]), Body: m[5]}
	switch m[1] {
	case "pred":
		d.Kind, d.Result = "pred", "bool"
	case "spec func":
		d.Kind = "spec"
	case "ghost func":
		d.Kind = "ghost"
	case "lemma":
		for _, w := range strings.Fields(d.Result) {
			if w != "serves" {
				d.Serves = append(d.Serves, w)
			}
		}
		d.Kind, d.Result = "lemma", "bool"
	}
	return d, nil
}

// ---- spec expression syntax -> Go expression ------------------------------------------------

// rewriteSpec turns the spec-only forms into Go:
//
//	a ==> b                      (!(a) || (b))          lowest precedence, right associative
//	forall x T, y U :: e         __forall(func(x T, y U) bool { return e })
//	exists x T :: e              __exists(func(x T) bool { return e })
//	old(e)                       __old(e)
//	a <==> b                     ((a) == (b))
func rewriteSpec(s string) (string, error) {
	s = strings.TrimSpace(s)
	// quantifier at the start of this (sub)expression
	for _, q := range []string{"forall", "exists"} {
		if strings.HasPrefix(s, q+" ") {
			i := indexTop(s, "::")
			if i < 0 {
				return "", fmt.Errorf("quantifier without '::' in %q", s)
			}
			vars := strings.TrimSpace(s[len(q):i])
			body, err := rewriteSpec(s[i+2:])
			if err != nil {
				return "", err
			}
			return fmt.Sprintf("__%s(func(%s) bool { return %s })", q, vars, body), nil
		}
	}
	if i := indexTop(s, "<==>"); i >= 0 {
		a, err := rewriteSpec(s[:i])
		if err != nil {
			return "", err
		}
		b, err := rewriteSpec(s[i+4:])
		if err != nil {
			return "", err
		}
		return fmt.Sprintf("((%s) == (%s))", a, b), nil
	}
	if i := indexTop(s, "==>"); i >= 0 {
		a, err := rewriteSpec(s[:i])
		if err != nil {
			return "", err
		}
		b, err := rewriteSpec(s[i+3:])
		if err != nil {
			return "", err
		}
		return fmt.Sprintf("(!(%s) || (%s))", a, b), nil
	}
	// top-level && and ||: rewrite operands (they may start with a quantifier)
	for _, op := range []string{"||", "&&"} {
		parts := splitTop(s, op)
		if len(parts) > 1 {
			for k := range parts {
				r, err := rewriteSpec(parts[k])
				if err != nil {
					return "", err
				}
				parts[k] = r
			}
			return "(" + strings.Join(parts, " "+op+" ") + ")", nil
		}
	}
	// descend into parenthesised groups and calls
	var out strings.Builder
	i := 0
	for i < len(s) {
		ch := s[i]
		if ch == '(' || ch == '[' || ch == '{' {
			j := matchClose(s, i)
			if j < 0 {
				return "", fmt.Errorf("unbalanced %q in %q", string(ch), s)
			}
			inner := s[i+1 : j]
			var r string
			var err error
			if ch == '(' {
				// argument lists: split on top-level commas
				args := splitTop(inner, ",")
				for k := range args {
					args[k], err = rewriteSpec(args[k])
					if err != nil {
						return "", err
					}
				}
				r = strings.Join(args, ", ")
			} else {
				r, err = rewriteSpec(inner)
				if err != nil {
					return "", err
				}
			}
			out.WriteByte(ch)
			out.WriteString(r)
			out.WriteByte(s[j])
			i = j + 1
			continue
		}
		if strings.HasPrefix(s[i:], "old(") && (i == 0 || !isIdent(s[i-1])) {
			out.WriteString("__old")
			i += 3
			continue
		}
		if ch == '!' && i+1 < len(s) {
			rest := strings.TrimSpace(s[i+1:])
			if strings.HasPrefix(rest, "forall ") || strings.HasPrefix(rest, "exists ") {
				r, err := rewriteSpec(rest)
				if err != nil {
					return "", err
				}
				out.WriteString("!" + r)
				return out.String(), nil
			}
		}
		out.WriteByte(ch)
		i++
	}
	return out.String(), nil
}

func isIdent(b byte) bool {
	return b == '_' || b >= '0' && b <= '9' || b >= 'a' && b <= 'z' || b >= 'A' && b <= 'Z'
}

func matchClose(s string, i int) int {
	depth := 0
	for j := i; j < len(s); j++ {
		switch s[j] {
		case '(', '[', '{':
			depth++
		case ')', ']', '}':
			depth--
			if depth == 0 {
				return j
			}
		case '"':
			for j++; j < len(s) && s[j] != '"'; j++ {
			}
		}
	}
	return -1
}

// indexTop finds op at bracket depth 0 (first occurrence), skipping the body of a quantifier
// that starts earlier at depth 0 (a quantifier extends as far right as possible).
func indexTop(s, op string) int {
	depth := 0
	for j := 0; j+len(op) <= len(s); j++ {
		switch s[j] {
		case '(', '[', '{':
			depth++
			continue
		case ')', ']', '}':
			depth--
			continue
		}
		if depth != 0 {
			continue
		}
		if op != "::" && (strings.HasPrefix(s[j:], "forall ") || strings.HasPrefix(s[j:], "exists ")) && (j == 0 || !isIdent(s[j-1])) {
			return -1 // everything to the right belongs to the quantifier
		}
		if strings.HasPrefix(s[j:], op) {
			if op == "==>" && j > 0 && s[j-1] == '<' {
				continue
			}
			return j
		}
	}
	return -1
}

func splitTop(s, op string) []string {
	var parts []string
	depth := 0
	start := 0
	for j := 0; j+len(op) <= len(s); j++ {
		switch s[j] {
		case '(', '[', '{':
			depth++
			continue
		case ')', ']', '}':
			depth--
			continue
		}
		if depth != 0 {
			continue
		}
		if (strings.HasPrefix(s[j:], "forall ") || strings.HasPrefix(s[j:], "exists ")) && (j == 0 || !isIdent(s[j-1])) {
			break
		}
		if strings.HasPrefix(s[j:], op) {
			parts = append(parts, s[start:j])
			start = j + len(op)
			j += len(op) - 1
		}
	}
	parts = append(parts, s[start:])
	return parts
}
