package main

import (
	"bufio"
	"crypto/sha256"
	"encoding/json"
	"fmt"
	"os"
	"os/exec"
	"path/filepath"
	"regexp"
	"sort"
	"strings"
	"time"
)

// ---- known findings -------------------------------------------------------------------------

type Known struct {
	Kind     string // known | fixed
	Property string
	ID       string
	Function string
	When     string
	Replay   string
	What     string
	Raw      string
}

var reKV = regexp.MustCompile(`(\w+)=("([^"]*)"|\S+)`)

func parseKnown(file string) []*Known {
	f, err := os.Open(file)
	if err != nil {
		return nil
	}
	defer f.Close()
	var out []*Known
	sc := bufio.NewScanner(f)
	for sc.Scan() {
		line := strings.TrimSpace(sc.Text())
		if line == "" || strings.HasPrefix(line, "#") {
			continue
		}
		k := &Known{Raw: line}
		switch {
		case strings.HasPrefix(line, "known:"):
			k.Kind = "known"
		case strings.HasPrefix(line, "fixed:"):
			k.Kind = "fixed"
		default:
			continue
		}
		for _, m := range reKV.FindAllStringSubmatch(line, -1) {
			v := m[2]
			if m[3] != "" || strings.HasPrefix(v, "\"") {
				v = m[3]
			}
			switch m[1] {
			case "property":
				k.Property = v
			case "id":
				k.ID = v
			case "function":
				k.Function = v
			case "when":
				k.When = v
			case "replay":
				k.Replay = v
			case "what":
				k.What = v
			}
		}
		out = append(out, k)
	}
	return out
}

// applyKnown adds the exclusion condition of every known finding as an assumption of the
// function it names (for the proof of that function only; call sites do not see it).
func applyKnown(con *Contracts, known []*Known) {
	for _, k := range known {
		if k.Kind != "known" || k.Function == "" || k.When == "" {
			continue
		}
		fs := con.Funcs[k.Function]
		if fs == nil {
			continue
		}
		fs.Clauses = append(fs.Clauses, &Clause{Kind: "assumes", Label: "known-" + k.ID, Text: "!(" + k.When + ")", File: "known_findings.txt"})
	}
}

// ---- lock file ------------------------------------------------------------------------------

// readLock reads obligations.lock: lines "<tags>\t<class>\t<obligation name>" where class is
// q (claimed in quick and thorough), t (claimed in thorough only: slow), u (generated on the
// unchanged tree but not discharged there: not claimed).
func readLock(file string) map[string]string {
	m := map[string]string{}
	f, err := os.Open(file)
	if err != nil {
		return m
	}
	defer f.Close()
	sc := bufio.NewScanner(f)
	sc.Buffer(make([]byte, 1<<20), 1<<20)
	for sc.Scan() {
		l := sc.Text()
		if l == "" || strings.HasPrefix(l, "#") {
			continue
		}
		p := strings.SplitN(l, "\t", 3)
		if len(p) == 3 {
			m[p[0]+"\t"+p[2]] = p[1]
		}
	}
	return m
}

func lockKey(tags, name string) string { return tags + "\t" + name }

// A postcondition is claimed for every exit of a function. Exits are numbered, and a change to
// the function may renumber them or add one: an obligation "<f>#post[l]@exitK[..]" that is not in
// the lock by name belongs to the family "<f>#post[l]"; when every member of that family is
// recorded as discharged, the new member is claimed as well (class t if any member is slow).
func familyOf(name string) string {
	if i := strings.Index(name, "@exit"); i >= 0 {
		return name[:i]
	}
	// a function with one exit has no exit suffix: the name is its own family
	if strings.Contains(name, "#post[") || strings.Contains(name, "#panics<=") || strings.Contains(name, "#frame[") {
		return name
	}
	return ""
}

func lockFamilies(lock map[string]string) map[string]string {
	fam := map[string]string{}
	for k, cls := range lock {
		f := familyOf(k)
		if f == "" {
			continue
		}
		prev, seen := fam[f]
		switch {
		case cls == "u" || cls == "c" || prev == "u":
			fam[f] = "u"
		case cls == "t" || prev == "t":
			fam[f] = "t"
		case !seen:
			fam[f] = cls
		}
	}
	return fam
}

// lockClass: class of an obligation by name, or else by family.
func lockClass(lock, fam map[string]string, tags, name string) string {
	if c, ok := lock[lockKey(tags, name)]; ok {
		return c
	}
	if f := familyOf(name); f != "" {
		if c := fam[lockKey(tags, f)]; c == "q" || c == "t" {
			return c
		}
	}
	return ""
}

// lockHasFunc reports whether the lock knows any obligation of the function (for these tags).
func lockHasFunc(lock map[string]string, tags, fn string) bool {
	pre := tags + "\t" + fn + "#"
	for k := range lock {
		if strings.HasPrefix(k, pre) {
			return true
		}
	}
	return false
}

// ---- evidence -------------------------------------------------------------------------------

type Evidence struct {
	PropertyID  string         `json:"property_id"`
	Tier        string         `json:"tier"`
	Seed        int            `json:"seed"`
	Level       string         `json:"level"`
	Coverage    map[string]any `json:"coverage"`
	Assumptions []string       `json:"assumptions"`
	WallS       float64        `json:"wall_s"`
	Violations  int            `json:"violations"`
}

func (r *Report) Finish() int {
	lock := readLock(r.LockFile)
	fams := lockFamilies(lock)
	known := r.Known
	nd, nr, nu, ncov, ncond := 0, 0, 0, 0, 0
	byBackend := map[string]int{}
	solverTime := 0.0
	var undecided, refuted []*Verdict
	var samples []any
	vacuity := map[string]int{}
	funcs := map[string]bool{}
	vacuousFunc := map[string]bool{}
	// a return statement that is executed once per incoming edge (tail duplication) is reachable
	// when one of its copies is; every other cover goal must be satisfiable by itself
	groupOK := map[string]bool{}
	for _, v := range r.Verdicts {
		if v.Obl.Cover && v.Obl.Group != "" && v.Status != "cover-fail" {
			groupOK[v.Obl.Group] = true
		}
	}
	for _, v := range r.Verdicts {
		if v.Status == "cover-fail" {
			if v.Obl.Group != "" && groupOK[v.Obl.Group] {
				v.Status = "cover-dup"
				continue
			}
			vacuousFunc[v.Func] = true
		}
	}
	// an obligation that was discharged under assumed hints (callee preconditions, assert hints,
	// earlier ensures, loop invariants) only counts when those were discharged themselves
	byName := map[string]*Verdict{}
	for _, v := range r.Verdicts {
		byName[v.Obl.Name] = v
	}
	// in the quick tier a slow obligation (class t) is deferred to the thorough tier: what depends
	// on it is not made conditional by its being undecided within the quick time limit
	solid := func(v *Verdict) bool {
		if v.Status == "discharged" && v.CondOn == "" {
			return true
		}
		return r.Tier == "quick" && !r.UpdateLock && v.Status == "undecided" && lockClass(lock, fams, r.Tags, v.Obl.Name) == "t"
	}
	for changed := true; changed; {
		changed = false
		for _, v := range r.Verdicts {
			if v.Status != "discharged" || v.CondOn != "" {
				continue
			}
			for _, d := range v.Obl.Deps {
				bad := ""
				if strings.HasPrefix(d, "@loop:") {
					key := strings.TrimPrefix(d, "@loop:") // "<func>#L<k>."
					i := strings.Index(key, "#")
					fn, l := key[:i], key[i+1:]
					for _, w := range r.Verdicts {
						if w.Func == fn && (strings.Contains(w.Obl.Name, "#inv-init["+l) || strings.Contains(w.Obl.Name, "#inv-pres["+l)) && !solid(w) && w != v {
							bad = w.Obl.Name
							break
						}
					}
				} else if w, ok := byName[d]; ok && !solid(w) && w != v {
					bad = w.Obl.Name
				}
				if bad != "" {
					v.CondOn = bad
					changed = true
					break
				}
			}
		}
	}
	for _, v := range r.Verdicts {
		funcs[v.Func] = true
		solverTime += v.TimeS
		if v.Obl.Cover {
			ncov++
			vacuity[v.Status]++
			if v.Status == "cover-fail" {
				fmt.Printf("  VACUOUS   %s (assumptions contradictory or exit unreachable)\n", v.Obl.Name)
			}
			continue
		}
		if vacuousFunc[v.Func] && v.Status == "discharged" {
			v.Status = "undecided"
			v.Output = "function has a failed cover goal; discharged obligations are not counted"
		}
		switch v.Status {
		case "discharged":
			if v.CondOn != "" {
				ncond++
				if r.Verbose {
					fmt.Printf("  cond      %-9s %5.2fs %s (rests on %s)\n", v.Backend, v.TimeS, v.Obl.Name, truncate(v.CondOn, 80))
				}
				break
			}
			nd++
			byBackend[v.Backend]++
			if r.Verbose {
				fmt.Printf("  ok        %-9s %5.2fs %s\n", v.Backend, v.TimeS, v.Obl.Name)
			}
			if len(samples) < 5 {
				samples = append(samples, map[string]any{"obligation": v.Obl.Name, "kind": v.Obl.Kind, "backend": v.Backend, "time_s": round2(v.TimeS), "verdict": "unsat"})
			}
		case "refuted":
			nr++
			refuted = append(refuted, v)
		default:
			nu++
			undecided = append(undecided, v)
		}
	}
	_ = refuted
	var unsupported []string
	for _, fr := range r.Results {
		if fr.Err != "" {
			unsupported = append(unsupported, fr.Name+": "+fr.Err)
			fmt.Printf("  UNSUPPORTED %s: %s\n", fr.Name, fr.Err)
		}
	}
	for _, s := range r.L.Stale {
		fmt.Printf("  STALE-CONTRACT %s\n", s)
	}

	// triage: only claimed obligations (obligations.lock classes q/t) and brand-new failing
	// obligations of functions the lock knows can raise an alarm
	violations := 0
	var vioLines []string
	report := func(v *Verdict, reason string, noInput bool) {
		violations++
		path := r.writeReplay(v, reason)
		line := fmt.Sprintf("VIOLATION property=%s replay=%s", r.Prop, path)
		if noInput {
			line += " obligation=" + strings.ReplaceAll(v.Obl.Name, " ", "_") + " no-failing-input-found"
		}
		vioLines = append(vioLines, line)
	}
	claimedN, claimedD := 0, 0
	var notClaimed []string
	deferred := 0
	for _, v := range r.Verdicts {
		if v.Obl.Cover {
			continue
		}
		cls := lockClass(lock, fams, r.Tags, v.Obl.Name)
		if cls == "" && !r.UpdateLock {
			if ic, ok := r.inherited(lock)[v.Obl.Name]; ok {
				cls = ic
				if ic != "u" && v.Status != "discharged" {
					fmt.Printf("  RENAMED   %s takes the place of a claimed obligation that is no longer generated\n", v.Obl.Name)
				}
			}
		}
		claimed := cls == "q" || (cls == "t" && r.Tier == "thorough") || cls == "c"
		switch v.Status {
		case "discharged":
			if (cls == "q" || cls == "t") && v.CondOn == "" {
				claimedN++
				claimedD++
			} else if cls == "q" || cls == "t" {
				// proved on the unchanged tree, now only conditionally: the hint it rests on fails and is reported itself
				claimedN++
			}
		case "refuted":
			switch {
			case cls == "q" || cls == "t" || cls == "c":
				if cls != "c" {
					claimedN++
				}
				fmt.Printf("  REFUTED   %-9s %5.2fs %s\n", v.Backend, v.TimeS, v.Obl.Name)
				if rp, ok := r.tryReplay(v); ok {
					violations++
					vioLines = append(vioLines, fmt.Sprintf("VIOLATION property=%s replay=%s obligation=%s", r.Prop, rp, strings.ReplaceAll(v.Obl.Name, " ", "_")))
				} else {
					report(v, "refuted: this obligation is discharged on the unchanged tree (obligations.lock); now a solver returns sat with a model. The model is a pre-state of the function; it could not be replayed mechanically on the real code", true)
				}
			case cls == "" && lockHasFunc(lock, r.Tags, v.Func):
				fmt.Printf("  REFUTED   %-9s %5.2fs %s (new obligation, not in obligations.lock)\n", v.Backend, v.TimeS, v.Obl.Name)
				if rp, ok := r.tryReplay(v); ok {
					violations++
					vioLines = append(vioLines, fmt.Sprintf("VIOLATION property=%s replay=%s obligation=%s", r.Prop, rp, strings.ReplaceAll(v.Obl.Name, " ", "_")))
				} else {
					report(v, "refuted: new obligation (the code of a function under contract changed) that a solver refutes with a model", true)
				}
			default:
				fmt.Printf("  unclaimed %-9s %5.2fs %s (refuted in the abstraction; not discharged on the unchanged tree either)\n", v.Backend, v.TimeS, v.Obl.Name)
				notClaimed = append(notClaimed, v.Obl.Name)
			}
		default: // undecided
			switch {
			case claimed:
				if cls != "c" {
					claimedN++
				}
				fmt.Printf("  REGRESSED %5.2fs %s (discharged on the unchanged tree per obligations.lock)\n", v.TimeS, v.Obl.Name)
				report(v, "undecided: this obligation is recorded as discharged in obligations.lock and no solver discharges it now (after a retry with thorough limits)", true)
			case cls == "t":
				deferred++
			default:
				if r.Verbose {
					fmt.Printf("  unclaimed %5.2fs %s (undecided)\n", v.TimeS, v.Obl.Name)
				}
				notClaimed = append(notClaimed, v.Obl.Name)
			}
		}
	}
	if len(lock) == 0 {
		// bootstrap (no lock yet): every discharged obligation counts, nothing alarms
		claimedN, claimedD = nd, nd
	}
	// the retry at thorough limits in main.go covers class q; class c obligations get it too
	// obligations in the lock that no longer exist (renamed away / contract lost)
	missing := 0
	missingBy := map[string][]string{}
	if r.Prop != "" && len(lock) > 0 && !r.UpdateLock && r.FuncFilter == "" {
		have := map[string]bool{}
		for _, v := range r.Verdicts {
			have[lockKey(r.Tags, v.Obl.Name)] = true
		}
		for k, cls := range lock {
			if !strings.HasPrefix(k, r.Tags+"\t") || cls == "u" {
				continue
			}
			name := strings.TrimPrefix(k, r.Tags+"\t")
			if !r.servesProp(name) {
				continue
			}
			if !have[k] {
				// renamed (inherited by a new obligation) or re-numbered within its family?
				r.inherited(lock)
				if r.matchedOld[name] {
					continue
				}
				if f := familyOf(name); f != "" {
					famHave := false
					for hk := range have {
						if familyOf(strings.TrimPrefix(hk, r.Tags+"\t")) == f {
							famHave = true
							break
						}
					}
					if famHave {
						continue
					}
				}
				if cls == "t" && r.Tier != "thorough" {
					continue
				}
				missing++
				fn := name
				if i := strings.Index(name, "#"); i >= 0 {
					fn = name[:i]
				}
				missingBy[fn] = append(missingBy[fn], name)
				if missing <= 10 {
					fmt.Printf("  MISSING   %s (in obligations.lock, not generated by this run)\n", name)
				}
			}
		}
		// a claimed obligation that is no longer generated is not proved any more: the function
		// cannot be translated (unsupported construct), or the clause no longer type-checks
		var fns []string
		for fn := range missingBy {
			fns = append(fns, fn)
		}
		sort.Strings(fns)
		for _, fn := range fns {
			why := "the contract clause or the statement it names no longer exists"
			for _, fr := range r.Results {
				if fr.Name == fn && fr.Err != "" {
					why = "the function can no longer be translated: " + fr.Err
				}
			}
			for _, st := range r.L.Stale {
				if strings.Contains(st, fn) {
					why = "stale contract: " + truncate(st, 200)
					break
				}
			}
			violations++
			dir := filepath.Join(r.ReplayDir, r.Prop)
			os.MkdirAll(dir, 0o755)
			path := filepath.Join(dir, fmt.Sprintf("missing_%x.txt", hashStr(fn)))
			os.WriteFile(path, []byte(fmt.Sprintf("property: %s\nfunction: %s\n%d obligations that are claimed as discharged in obligations.lock are no longer generated (%s):\n  %s\n", r.Prop, fn, len(missingBy[fn]), why, strings.Join(missingBy[fn], "\n  "))), 0o644)
			vioLines = append(vioLines, fmt.Sprintf("VIOLATION property=%s replay=%s obligation=%s#claimed-obligations-not-generated(%d) no-failing-input-found", r.Prop, path, strings.ReplaceAll(fn, " ", "_"), len(missingBy[fn])))
		}
	}

	// known findings: replays on the real code
	for _, k := range known {
		if k.Property != r.Prop {
			continue
		}
		if k.Kind != "known" {
			continue
		}
		st := "not-run"
		if k.Replay != "" {
			failed, out := runReplayFile(r.L, filepath.Join(r.VerifDir, k.Replay))
			if failed {
				st = "reproduced"
			} else {
				st = "NOT reproduced (stale entry?) " + truncate(out, 200)
			}
		}
		fmt.Printf("KNOWN-FINDING: property=%s %s %s [%s] replay %s\n", k.Property, k.ID, k.What, k.Function, st)
	}

	// a violation may be the return of a defect that was fixed: the replays of "fixed:" entries
	// are real failing inputs for it
	if violations > 0 {
		for _, k := range known {
			if k.Kind != "fixed" || k.Property != r.Prop || k.Replay == "" {
				continue
			}
			if failed, _ := runReplayFile(r.L, filepath.Join(r.VerifDir, k.Replay)); failed {
				vioLines = append(vioLines, fmt.Sprintf("VIOLATION property=%s replay=%s (regression of fixed defect %s: the replay fails on the real code)", r.Prop, filepath.Join(r.VerifDir, k.Replay), k.ID))
			}
		}
	}
	var sweepCov map[string]any
	if r.Sweep == "determinism" {
		var sv int
		sv, sweepCov = r.runSweep(r.AllowFile)
		violations += sv
	}
	if r.Sweep == "lockset" {
		var sv int
		sv, sweepCov = r.runLockset(r.AllowFile)
		violations += sv
	}
	if r.Sweep == "aliveguard" {
		var sv int
		sv, sweepCov = r.runAliveCheck(r.AllowFile)
		violations += sv
	}
	if r.Sweep == "lockdiscipline" || r.Sweep == "pairing" {
		var sv int
		sv, sweepCov = r.runLockCheck(r.AllowFile)
		violations += sv
	}
	// bounded stand-ins: real code executed on every case up to a stated bound; never "proved"
	if r.BoundedFiles != "" {
		var bs []any
		for _, f := range strings.Split(r.BoundedFiles, ",") {
			t0 := time.Now()
			failed, out := runReplayFile(r.L, f)
			rec := map[string]any{"file": f, "label": "bounded (not a proof)", "wall_s": round2(time.Since(t0).Seconds())}
			ran := false
			for _, line := range strings.Split(out, "\n") {
				if strings.HasPrefix(line, "BOUNDED ") {
					ran = true
					var c, n, b int
					fmt.Sscanf(line, "BOUNDED cases=%d nontrivial=%d bound=%d", &c, &n, &b)
					rec["cases"], rec["nontrivial"], rec["bound"] = c, n, b
					fmt.Printf("bounded check %s: cases=%d nontrivial=%d bound=%d failed=%v\n", filepath.Base(f), c, n, b, failed)
				}
			}
			if failed || !ran {
				violations++
				dir := filepath.Join(r.ReplayDir, r.Prop)
				os.MkdirAll(dir, 0o755)
				path := filepath.Join(dir, fmt.Sprintf("bounded_%x.txt", hashStr(f+out)))
				os.WriteFile(path, []byte("bounded check "+f+" failed on the real code; run it with: ./check replay "+f+"\n\n"+truncate(out, 20000)), 0o644)
				fmt.Printf("VIOLATION property=%s replay=%s (bounded check: the failing case is named in the output; %s is the executable input)\n", r.Prop, f, path)
				rec["failed"] = true
				rec["output"] = truncate(out, 2000)
			}
			bs = append(bs, rec)
		}
		r.Bounded = bs
	}
	for _, l := range vioLines {
		fmt.Println(l)
	}
	fmt.Printf("property=%s tier=%s functions=%d generated=%d discharged=%d conditional=%d refuted=%d undecided=%d | claimed=%d claimed-discharged=%d deferred-to-thorough=%d unclaimed=%d covers=%d gen=%.1fs wall=%.1fs\n",
		r.Prop, r.Tier, len(r.Results), len(r.Verdicts)-ncov, nd, ncond, nr, nu, claimedN, claimedD, deferred, len(notClaimed), ncov, r.GenS, time.Since(r.T0).Seconds())

	if r.UpdateLock && r.LockFile != "" {
		r.updateLock(lock)
	}
	if r.Evidence != "" {
		var fl []string
		for f := range funcs {
			fl = append(fl, f)
		}
		sort.Strings(fl)
		var trusted []string
		assumed := map[string]bool{}
		for _, fr := range r.Results {
			if fr.Trusted {
				trusted = append(trusted, fr.Name+" (contract trusted: data plane / dependency)")
			}
			if fr.Spec != nil && fr.Spec.Flags["posttrusted"] {
				trusted = append(trusted, fr.Name+" (postconditions trusted; loop invariants, assertions and callee preconditions of its body are checked)")
			}
			for _, a := range fr.Assumed {
				assumed[a] = true
			}
		}
		tb := []string{"arkvc VC generator (this repository) and go/ssa v0.50.0", "SMT solvers z3 5.1.0, cvc5 1.0.3, z3 4.8.12 (soundness)",
			"SSA built by go1.26.8 agrees with go1.24 semantics for this package", "heap model: leaf pointers of unknown provenance address slice elements or cells, not struct fields",
			"no memory exhaustion; slices <= 2^40 elements"}
		tb = append(tb, trusted...)
		var al []string
		for a := range assumed {
			al = append(al, a)
		}
		sort.Strings(al)
		var uns []string
		for _, v := range undecided {
			uns = append(uns, v.Obl.Name)
		}
		var kn []string
		for _, k := range known {
			if k.Property == r.Prop {
				kn = append(kn, k.Raw)
			}
		}
		ev := Evidence{PropertyID: r.Prop, Tier: r.Tier, Seed: r.Seed, Level: r.Level, WallS: round2(time.Since(r.T0).Seconds()), Violations: violations,
			Assumptions: append(al, "machine integers are bit-vectors of their declared width (never mathematical integers)", "callee contracts are used at call sites; callbacks havoc all modelled memory"),
			Coverage: map[string]any{
				"obligations": claimedN, "discharged": claimedD,
				"generated_obligations": len(r.Verdicts) - ncov, "generated_discharged": nd, "generated_refuted": nr, "generated_undecided": nu,
				"unclaimed": notClaimed, "deferred_to_thorough": deferred, "conditional_discharged": ncond,
				"checker_cmd":              r.CheckerCmd,
				"trusted_base":             tb,
				"functions_under_contract": fl,
				"by_backend":               byBackend,
				"solver_time_s":            round2(solverTime),
				"generation_time_s":        round2(r.GenS),
				"undecided":                uns,
				"unsupported_functions":    unsupported,
				"stale_contracts":          r.L.Stale,
				"vacuity":                  vacuity,
				"tags":                     r.Tags,
				"samples":                  samples,
				"known_findings":           kn,
				"missing_from_lock":        missing,
				"per_goal_timeout_ms":      r.TimeoutMs,
				"bounded":                  r.Bounded,
				"explanation":              r.Explanation,
			}}
		if bl, ok := r.Bounded.([]any); ok && len(bl) > 0 {
			ev := &ev
			total, nontriv := 0, 0
			var bsamples []any
			for _, b := range bl {
				m := b.(map[string]any)
				if c, ok := m["cases"].(int); ok {
					total += c
				}
				if c, ok := m["nontrivial"].(int); ok {
					nontriv += c
				}
				bsamples = append(bsamples, m)
			}
			ev.Coverage["evaluations"] = total
			ev.Coverage["distinct_nontrivial"] = nontriv
			ev.Coverage["exhaustive"] = true
			ev.Coverage["rule"] = "BOUNDED stand-in, not a proof: the real data-plane functions are executed on every case up to the stated bound (all start/len/capacity combinations, listed item types, enumerated histories) and compared byte for byte with the contract the deductive part trusts; a case is non-trivial when it moves or clears at least one byte; nothing is claimed beyond the bound"
			ev.Coverage["samples"] = append(bsamples, samples...)
		}
		for k, v := range sweepCov {
			if k == "samples" {
				ev.Coverage["samples"] = append(v.([]any), samples...)
				continue
			}
			ev.Coverage[k] = v
		}
		if r.Level != "proof" && ev.Coverage["explanation"] == "" {
			ev.Coverage["explanation"] = "see obligations/discharged and functions_under_contract"
		}
		os.MkdirAll(filepath.Dir(r.Evidence), 0o755)
		data, _ := json.MarshalIndent(ev, "", " ")
		os.WriteFile(r.Evidence, data, 0o644)
	}
	if violations > 0 {
		return 1
	}
	return 0
}

// Renamed obligations. Obligation names contain the source text of their line, so an edit of a
// statement renames its obligations. Every lock entry of a verified function that this run did not
// generate ("vanished") is matched with the most similar new obligation of the same function and
// kind (greedy, most similar pair first, one-to-one); the new obligation inherits the class of the
// vanished one: a renamed unclaimed obligation stays unclaimed, a renamed claimed one stays claimed
// (its statement was proved safe / its clause was proved before the edit, so it must be now).
func (r *Report) inherited(lock map[string]string) map[string]string {
	if r.inheritedCls != nil {
		return r.inheritedCls
	}
	r.inheritedCls = map[string]string{}
	have := map[string]bool{}
	ran := map[string]bool{}
	for _, w := range r.Verdicts {
		have[lockKey(r.Tags, w.Obl.Name)] = true
		ran[w.Func] = true
	}
	kindOf := func(name string) string {
		if i := strings.Index(name, "["); i >= 0 {
			return name[:i]
		}
		return name
	}
	funcOf := func(name string) string {
		if i := strings.Index(name, "#"); i >= 0 {
			return name[:i]
		}
		return name
	}
	newBy := map[string][]string{}
	for _, w := range r.Verdicts {
		if w.Obl.Cover {
			continue
		}
		if _, ok := lock[lockKey(r.Tags, w.Obl.Name)]; !ok {
			newBy[kindOf(w.Obl.Name)] = append(newBy[kindOf(w.Obl.Name)], w.Obl.Name)
		}
	}
	type pair struct {
		old, nw, cls string
		score        int
	}
	var pairs []pair
	for k, cls := range lock {
		if !strings.HasPrefix(k, r.Tags+"\t") || have[k] {
			continue
		}
		old := strings.TrimPrefix(k, r.Tags+"\t")
		if !ran[funcOf(old)] || familyOf(old) != "" {
			continue
		}
		for _, c := range newBy[kindOf(old)] {
			pairs = append(pairs, pair{old, c, cls, commonSubstr(old, c)})
		}
	}
	sort.Slice(pairs, func(i, j int) bool {
		if pairs[i].score != pairs[j].score {
			return pairs[i].score > pairs[j].score
		}
		if pairs[i].old != pairs[j].old {
			return pairs[i].old < pairs[j].old
		}
		return pairs[i].nw < pairs[j].nw
	})
	usedOld, usedNew := map[string]bool{}, map[string]bool{}
	for _, p := range pairs {
		if usedOld[p.old] || usedNew[p.nw] {
			continue
		}
		usedOld[p.old], usedNew[p.nw] = true, true
		r.inheritedCls[p.nw] = p.cls
	}
	r.matchedOld = usedOld
	return r.inheritedCls
}

// commonSubstr: length of the longest common substring after the kind prefix.
func commonSubstr(a, b string) int {
	if i := strings.Index(a, "["); i >= 0 {
		a = a[i:]
	}
	if i := strings.Index(b, "["); i >= 0 {
		b = b[i:]
	}
	best := 0
	prev := make([]int, len(b)+1)
	for i := 1; i <= len(a); i++ {
		cur := make([]int, len(b)+1)
		for j := 1; j <= len(b); j++ {
			if a[i-1] == b[j-1] {
				cur[j] = prev[j-1] + 1
				if cur[j] > best {
					best = cur[j]
				}
			}
		}
		prev = cur
	}
	return best
}

func commonPrefix(a, b string) int {
	n := 0
	for n < len(a) && n < len(b) && a[n] == b[n] {
		n++
	}
	return n
}

func round2(x float64) float64 { return float64(int(x*100+0.5)) / 100 }

func (r *Report) servesProp(oblName string) bool {
	i := strings.Index(oblName, "#")
	if i < 0 {
		return false
	}
	fs := r.L.Con.Funcs[oblName[:i]]
	return fs != nil && contains(fs.Serves, r.Prop)
}

func (r *Report) updateLock(old map[string]string) {
	// keep entries of other tag sets and of functions not verified in this run
	keep := map[string]string{}
	ran := map[string]bool{}
	for _, fr := range r.Results {
		ran[fr.Name] = true
	}
	for k, cls := range old {
		parts := strings.SplitN(k, "\t", 2)
		if len(parts) != 2 {
			continue
		}
		fn := parts[1]
		if i := strings.Index(fn, "#"); i >= 0 {
			fn = fn[:i]
		}
		if parts[0] != r.Tags || !ran[fn] {
			keep[k] = cls
		}
	}
	for _, v := range r.Verdicts {
		if v.Obl.Cover {
			continue
		}
		cls := "u"
		if v.Status == "discharged" {
			cls = "t"
			if v.TimeS <= 5.0 {
				cls = "q"
			}
			if v.CondOn != "" {
				cls = "c" // discharged only under an undischarged hint: not counted as proved, but a later failure is an alarm
			}
		}
		keep[lockKey(r.Tags, v.Obl.Name)] = cls
	}
	var ks []string
	for k, cls := range keep {
		p := strings.SplitN(k, "\t", 2)
		ks = append(ks, p[0]+"\t"+cls+"\t"+p[1])
	}
	sort.Strings(ks)
	os.WriteFile(r.LockFile, []byte("# obligations generated on the unchanged tree: <tags>\\t<class q|t|u>\\t<obligation name>\n"+strings.Join(ks, "\n")+"\n"), 0o644)
}

func (r *Report) writeReplay(v *Verdict, reason string) string {
	dir := r.ReplayDir
	if dir == "" {
		dir = "replays"
	}
	dir = filepath.Join(dir, r.Prop)
	os.MkdirAll(dir, 0o755)
	h := sha256.Sum256([]byte(v.Obl.Name))
	path := filepath.Join(dir, fmt.Sprintf("obl_%x.txt", h[:6]))
	var sb strings.Builder
	fmt.Fprintf(&sb, "property: %s\nobligation: %s\nkind: %s\nfunction: %s\nsource: %s\ncontract: %s\nverdict: %s\nreason: %s\n\n", r.Prop, v.Obl.Name, v.Obl.Kind, v.Func, v.Obl.Pos, v.Obl.Detail, v.Status, reason)
	fmt.Fprintf(&sb, "solver output:\n%s\n", v.Output)
	if v.Model != "" {
		fmt.Fprintf(&sb, "\nmodel (pre-state of the function that violates the obligation):\n%s\n", truncate(v.Model, 20000))
	}
	if v.Script != "" {
		fmt.Fprintf(&sb, "\nscript: %s\n", v.Script)
	}
	os.WriteFile(path, []byte(sb.String()), 0o644)
	return path
}

// runReplayFile injects a Go test file into package ecs through an overlay and runs it with the
// repository's own toolchain. It returns whether the test failed.
func runReplayFile(L *Loaded, file string) (bool, string) {
	data, err := os.ReadFile(file)
	if err != nil {
		return false, "cannot read replay file: " + err.Error()
	}
	tmp, err := os.MkdirTemp("", "arkvc-replay")
	if err != nil {
		return false, err.Error()
	}
	defer os.RemoveAll(tmp)
	src := filepath.Join(tmp, "src_test.go")
	os.WriteFile(src, data, 0o644)
	target := filepath.Join(L.Repo, "ecs", "zz_verif_replay_test.go")
	ov := map[string]any{"Replace": map[string]string{target: src}}
	ovData, _ := json.Marshal(ov)
	ovFile := filepath.Join(tmp, "overlay.json")
	os.WriteFile(ovFile, ovData, 0o644)
	// test name: first "func Test..." in the file
	name := "TestVerifReplay"
	if m := regexp.MustCompile(`func (Test\w+)\(`).FindSubmatch(data); m != nil {
		name = string(m[1])
	}
	race, limit := "", "ulimit -v 8000000; "
	if strings.Contains(string(data), "//verif:race") {
		race, limit = "-race ", "" // the race detector reserves a large virtual address range
	}
	cmd := exec.Command("bash", "-c", fmt.Sprintf("%scd %s && go test -v %s-overlay %s -vet=off -count=1 -timeout 300s -run '^%s$' ./ecs", limit, L.Repo, race, ovFile, name))
	cmd.Env = replayEnv()
	out, err := cmd.CombinedOutput()
	s := string(out)
	if err != nil && (strings.Contains(s, "--- FAIL") || strings.Contains(s, "panic:") || strings.Contains(s, "FAIL") || strings.Contains(s, "DATA RACE")) && !strings.Contains(s, "[build failed]") && !strings.Contains(s, "[setup failed]") {
		return true, s
	}
	return false, s
}

// replayEnv: the repository's own toolchain (go 1.24 via GOTOOLCHAIN=auto from the module cache).
func replayEnv() []string {
	var env []string
	for _, e := range os.Environ() {
		if strings.HasPrefix(e, "PATH=") || strings.HasPrefix(e, "GOTOOLCHAIN=") || strings.HasPrefix(e, "GOFLAGS=") || strings.HasPrefix(e, "GOPROXY=") || strings.HasPrefix(e, "GOSUMDB=") {
			continue
		}
		env = append(env, e)
	}
	env = append(env, "PATH="+origPath, "GOFLAGS=-mod=mod", "GOPROXY=off", "GOTOOLCHAIN=auto")
	return env
}

var origPath string

// tryReplay: mechanical replay of a model on the real code (flat pre-states only).
func (r *Report) tryReplay(v *Verdict) (string, bool) {
	gen := replayGenerators[v.Func]
	if gen == nil {
		return "", false
	}
	src, ok := gen(r, v)
	if !ok {
		return "", false
	}
	dir := filepath.Join(r.ReplayDir, r.Prop)
	os.MkdirAll(dir, 0o755)
	h := sha256.Sum256([]byte(v.Obl.Name))
	path := filepath.Join(dir, fmt.Sprintf("replay_%x_test.go", h[:6]))
	hdr := fmt.Sprintf("// replay for obligation %s\n// model found by %s\n", v.Obl.Name, v.Backend)
	os.WriteFile(path, []byte(hdr+src), 0o644)
	failed, out := runReplayFile(r.L, path)
	if failed {
		os.WriteFile(path+".out", []byte(out), 0o644)
		return path, true
	}
	os.Remove(path)
	return "", false
}

var replayGenerators = map[string]func(r *Report, v *Verdict) (string, bool){}
