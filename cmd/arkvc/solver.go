package main

import (
	"bytes"
	"context"
	"fmt"
	"os"
	"os/exec"
	"path/filepath"
	"strings"
	"sync"
	"time"
)

type Verdict struct {
	Obl     *Obl
	Func    string
	Status  string // discharged | refuted | undecided | cover-ok | cover-fail
	Backend string
	TimeS   float64
	Output  string // solver output for refuted / undecided
	Model   string
	Script  string // path of the script (kept for refuted/undecided)
}

type solverSpec struct {
	name string
	args func(file string, timeoutMs int) []string
}

var solvers = []solverSpec{
	{"z3-5.1.0", func(f string, ms int) []string { return []string{"z3-new", fmt.Sprintf("-t:%d", ms), f} }},
	{"cvc5-1.0", func(f string, ms int) []string {
		return []string{"cvc5", fmt.Sprintf("--tlimit=%d", ms), "--full-saturate-quant", f}
	}},
	{"z3-4.8.12", func(f string, ms int) []string { return []string{"z3", fmt.Sprintf("-t:%d", ms), f} }},
}

func runSolver(sp solverSpec, file string, timeoutMs int) (string, string, float64) {
	ctx, cancel := context.WithTimeout(context.Background(), time.Duration(timeoutMs+2000)*time.Millisecond)
	defer cancel()
	a := sp.args(file, timeoutMs)
	cmd := exec.CommandContext(ctx, a[0], a[1:]...)
	var out bytes.Buffer
	cmd.Stdout = &out
	cmd.Stderr = &out
	t0 := time.Now()
	cmd.Run()
	dt := time.Since(t0).Seconds()
	s := out.String()
	first := strings.TrimSpace(strings.SplitN(s, "\n", 2)[0])
	switch first {
	case "unsat", "sat", "unknown":
		return first, s, dt
	}
	if ctx.Err() != nil || strings.Contains(s, "timeout") || strings.Contains(s, "interrupted") {
		return "timeout", s, dt
	}
	return "error", s, dt
}

// discharge runs all obligations of all functions with a worker pool.
func discharge(results []*FuncResult, workers int, timeoutMs int, seed int, keepDir string) []*Verdict {
	tmp, err := os.MkdirTemp("", "arkvc")
	if err != nil {
		panic(err)
	}
	defer os.RemoveAll(tmp)
	type job struct {
		fr *FuncResult
		o  *Obl
		id int
	}
	var jobs []job
	for _, fr := range results {
		for _, o := range fr.Obls {
			jobs = append(jobs, job{fr, o, len(jobs)})
		}
	}
	verdicts := make([]*Verdict, len(jobs))
	var wg sync.WaitGroup
	ch := make(chan job)
	// de-duplicate identical scripts within this invocation
	var mu sync.Mutex
	for w := 0; w < workers; w++ {
		wg.Add(1)
		go func() {
			defer wg.Done()
			for j := range ch {
				script := j.fr.VC.script(j.o, seed)
				file := filepath.Join(tmp, fmt.Sprintf("o%d.smt2", j.id))
				os.WriteFile(file, []byte(script), 0o644)
				v := &Verdict{Obl: j.o, Func: j.fr.Name}
				want := "unsat"
				if j.o.Cover {
					want = "sat"
				}
				status := "undecided"
				var outs []string
				for si, sp := range solvers {
					tmo := timeoutMs
					if si > 0 {
						tmo = timeoutMs / 2
					}
					if j.o.Cover {
						// a cover goal only looks for a contradiction in the assumptions
						if si > 0 {
							break
						}
						tmo = 1500
					}
					r, out, dt := runSolver(sp, file, tmo)
					v.TimeS += dt
					outs = append(outs, fmt.Sprintf("--- %s: %s (%.2fs)\n%s", sp.name, r, dt, truncate(out, 2000)))
					if r == want {
						v.Backend = sp.name
						if j.o.Cover {
							status = "cover-ok"
						} else {
							status = "discharged"
						}
						break
					}
					if r == "sat" && !j.o.Cover {
						// refuted; get a model
						v.Backend = sp.name
						status = "refuted"
						mfile := file + ".model.smt2"
						os.WriteFile(mfile, []byte(script+"(get-model)\n"), 0o644)
						_, mout, _ := runSolver(sp, mfile, tmo)
						v.Model = mout
						break
					}
					if r == "unsat" && j.o.Cover {
						v.Backend = sp.name
						status = "cover-fail"
						break
					}
					if r == "error" && si == 0 {
						// a malformed script is an engine bug: stop early, keep output
						status = "undecided"
					}
				}
				if j.o.Cover && status == "undecided" {
					status = "cover-unknown"
				}
				v.Status = status
				v.Output = strings.Join(outs, "\n")
				if status != "discharged" && status != "cover-ok" && status != "cover-unknown" && keepDir != "" {
					mu.Lock()
					os.MkdirAll(keepDir, 0o755)
					dst := filepath.Join(keepDir, sanitize(j.o.Name)+".smt2")
					os.WriteFile(dst, []byte(script), 0o644)
					v.Script = dst
					mu.Unlock()
				}
				verdicts[j.id] = v
			}
		}()
	}
	for _, j := range jobs {
		ch <- j
	}
	close(ch)
	wg.Wait()
	return verdicts
}

func truncate(s string, n int) string {
	if len(s) > n {
		return s[:n] + "…"
	}
	return s
}
