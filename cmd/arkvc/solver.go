package main

import (
	"bytes"
	"context"
	"fmt"
	"os"
	"os/exec"
	"path/filepath"
	"strings"
	"sync"
	"time"
)

type Verdict struct {
	Obl     *Obl
	Func    string
	Status  string // discharged | refuted | undecided | cover-ok | cover-fail | cover-unknown
	Backend string
	TimeS   float64
	Output  string // solver output for refuted / undecided
	Model   string
	Script  string // path of the script (kept for refuted/undecided)
	CondOn  string // discharged, but only under the assumption of this undischarged obligation
}

var dumpAll bool

// A variant is one way of attacking a goal: a solver, its options and an optional (sound)
// transformation of the script. All variants of a goal are raced; the first conclusive answer
// wins. Transformations only ever drop assumptions or pick a decision procedure.
type variant struct {
	name      string
	cmd       func(file string, ms int) []string
	prep      func(script string) (string, bool) // returns false when the variant does not apply
	qfOnly    bool
	proveOnly bool // a "sat" answer of this variant is not used
	maxMs     int
}

const bbTactic = "(check-sat-using (then simplify propagate-values solve-eqs dt2bv elim-uncnstr ackermannize_bv simplify bit-blast sat))"

func z3cmd(opts ...string) func(string, int) []string {
	return func(f string, ms int) []string {
		return append(append([]string{"z3-new", fmt.Sprintf("-t:%d", ms)}, opts...), f)
	}
}

var variants = []variant{
	{name: "z3-5.1.0", cmd: z3cmd()},
	{name: "z3-5.1.0/ematch", cmd: z3cmd("smt.mbqi=false", "smt.auto_config=false"), proveOnly: true},
	{name: "cvc5-1.0", cmd: func(f string, ms int) []string {
		return []string{"cvc5", fmt.Sprintf("--tlimit=%d", ms), "--full-saturate-quant", f}
	}},
	{name: "z3-5.1.0/ground", cmd: z3cmd(), prep: dropQuantified, proveOnly: true},
	{name: "z3-5.1.0/bitblast", cmd: z3cmd(), prep: func(s string) (string, bool) {
		return strings.Replace(s, "(check-sat)", bbTactic, 1), true
	}, qfOnly: true, proveOnly: true, maxMs: 4000},
}

// dropQuantified removes the quantified assumptions (all but the last assert, which is the
// negated goal). Fewer assumptions: an "unsat" is still a proof.
func dropQuantified(s string) (string, bool) {
	lines := strings.Split(s, "\n")
	last := -1
	for i, l := range lines {
		if strings.HasPrefix(l, "(assert ") {
			last = i
		}
	}
	dropped := false
	var out []string
	for i, l := range lines {
		if i != last && strings.HasPrefix(l, "(assert ") && (strings.Contains(l, "(forall ") || strings.Contains(l, "(exists ")) {
			dropped = true
			continue
		}
		out = append(out, l)
	}
	return strings.Join(out, "\n"), dropped
}

func runSolverCtx(ctx context.Context, a []string) (string, string, float64) {
	cmd := exec.CommandContext(ctx, a[0], a[1:]...)
	var out bytes.Buffer
	cmd.Stdout = &out
	cmd.Stderr = &out
	t0 := time.Now()
	cmd.Run()
	dt := time.Since(t0).Seconds()
	s := out.String()
	first := ""
	for _, l := range strings.Split(s, "\n") {
		l = strings.TrimSpace(l)
		if l == "" || strings.HasPrefix(l, "WARNING") || strings.HasPrefix(l, "(warning") {
			continue
		}
		first = l
		break
	}
	switch first {
	case "unsat", "sat", "unknown":
		return first, s, dt
	}
	if ctx.Err() != nil || strings.Contains(s, "timeout") || strings.Contains(s, "interrupted") {
		return "timeout", s, dt
	}
	return "error", s, dt
}

type raceResult struct {
	v      *variant
	r, out string
	dt     float64
}

// solverSem bounds the number of solver processes that run at the same time: the time limit of a
// process starts when it gets its slot, so a loaded machine does not turn into timeouts.
var solverSem = make(chan struct{}, 16)

// leanRace (quick tier): only the variants that decide most goals are started.
var leanRace bool

// race runs the applicable variants concurrently and returns the first conclusive result.
func race(script, file string, timeoutMs int, cover bool, sliced ...string) (string, string, float64, []string) {
	qf := !strings.Contains(script, "(forall ") && !strings.Contains(script, "(exists ")
	parent, cancel := context.WithCancel(context.Background())
	defer cancel()
	ch := make(chan raceResult, len(variants)+16)
	n := 0
	start := func(v *variant, f string, ms int) {
		n++
		go func() {
			select {
			case solverSem <- struct{}{}:
			case <-parent.Done():
				ch <- raceResult{v, "skipped", "", 0}
				return
			}
			defer func() { <-solverSem }()
			if parent.Err() != nil {
				ch <- raceResult{v, "skipped", "", 0}
				return
			}
			ctx, c2 := context.WithTimeout(parent, time.Duration(ms+1500)*time.Millisecond)
			defer c2()
			r, out, dt := runSolverCtx(ctx, v.cmd(f, ms))
			ch <- raceResult{v, r, out, dt}
		}()
	}
	for i := range variants {
		v := &variants[i]
		if v.qfOnly && !qf {
			continue
		}
		if cover && i > 0 {
			continue // covers only look for a contradiction, with the primary solver
		}
		f := file
		if v.prep != nil {
			s2, ok := v.prep(script)
			if !ok {
				continue
			}
			f = fmt.Sprintf("%s.v%d.smt2", file, i)
			os.WriteFile(f, []byte(s2), 0o644)
		}
		ms := timeoutMs
		if v.maxMs > 0 && ms > v.maxMs {
			ms = v.maxMs
		}
		start(v, f, ms)
	}
	// goal-directed slices and pre-instantiated scripts: prove-only
	for k, sc := range sliced {
		if sc == "" {
			continue
		}
		f := fmt.Sprintf("%s.hop%d.smt2", file, k+1)
		os.WriteFile(f, []byte(sc), 0o644)
		for _, vi := range []int{0, 1} {
			if leanRace && ((k < 2) || (k >= 3 && vi == 0)) {
				continue // quick tier: slice3 with both modes, pre-instantiated scripts with e-matching
			}
			label := fmt.Sprintf("slice%d", k+1)
			if k == 3 {
				label = "inst"
			} else if k == 4 {
				label = "inst+slice"
			}
			v := &variant{name: variants[vi].name + "/" + label, cmd: variants[vi].cmd, proveOnly: true}
			start(v, f, timeoutMs)
		}
	}
	var outs []string
	total := 0.0
	res, backend := "unknown", ""
	for k := 0; k < n; k++ {
		rr := <-ch
		if rr.r == "skipped" {
			continue
		}
		outs = append(outs, fmt.Sprintf("--- %s: %s (%.2fs)\n%s", rr.v.name, rr.r, rr.dt, truncate(rr.out, 1500)))
		if rr.dt > total {
			total = rr.dt
		}
		if rr.r == "unsat" || (rr.r == "sat" && !rr.v.proveOnly) {
			res, backend = rr.r, rr.v.name
			total = rr.dt
			cancel()
			break
		}
	}
	return res, backend, total, outs
}

// stage1: most goals are decided at once by the primary solver or by e-matching alone; only the
// others get the whole portfolio (slices and pre-instantiated scripts are built only then).
func stage1(file string) (string, string, float64, []string, bool) {
	ctx, cancel := context.WithCancel(context.Background())
	defer cancel()
	ch := make(chan raceResult, 2)
	for _, vi := range []int{0, 1} {
		v := &variants[vi]
		go func() {
			solverSem <- struct{}{}
			defer func() { <-solverSem }()
			c2, cc := context.WithTimeout(ctx, 2500*time.Millisecond)
			defer cc()
			r, out, dt := runSolverCtx(c2, v.cmd(file, 1200))
			ch <- raceResult{v, r, out, dt}
		}()
	}
	for k := 0; k < 2; k++ {
		rr := <-ch
		if rr.r == "unsat" || (rr.r == "sat" && !rr.v.proveOnly) {
			return rr.r, rr.v.name, rr.dt, []string{fmt.Sprintf("--- %s: %s (%.2fs)\n%s", rr.v.name, rr.r, rr.dt, truncate(rr.out, 1500))}, true
		}
	}
	return "", "", 0, nil, false
}

// discharge runs all obligations of all functions with a worker pool.
// skipObl, when set, names obligations that are not sent to the solvers (quick tier: those the lock
// records as unclaimed).
var skipObl func(name string) bool

// shortObl, when set, names obligations that get a short time limit (lock refresh: class u).
var shortObl func(name string) bool

func discharge(results []*FuncResult, workers int, timeoutMs int, seed int, keepDir string) []*Verdict {
	var skipped []*Verdict
	tmp, err := os.MkdirTemp("", "arkvc")
	if err != nil {
		panic(err)
	}
	defer os.RemoveAll(tmp)
	type job struct {
		fr      *FuncResult
		o       *Obl
		id      int
		script  string // all assumptions
		script1 string // relevant assumptions (closure)
		script2 string // relevant assumptions within two hops
		script3 string // relevant assumptions within one hop
	}
	var jobs []job
	for _, fr := range results {
		for _, o := range fr.Obls {
			if skipObl != nil && !o.Cover && skipObl(o.Name) {
				skipped = append(skipped, &Verdict{Obl: o, Func: fr.Name, Status: "undecided", Output: "not attempted: unclaimed on the unchanged tree (obligations.lock class u); attempted again at every lock refresh"})
				continue
			}
			// the full script (every assumption made before the obligation) is the only one whose
			// "sat" answers are used; the sliced ones can only prove
			j := job{fr: fr, o: o, id: len(jobs), script: fr.VC.script(o, -1)}
			jobs = append(jobs, j)
		}
	}
	verdicts := make([]*Verdict, len(jobs), len(jobs)+len(skipped))
	var wg sync.WaitGroup
	ch := make(chan job)
	var mu, genMu sync.Mutex
	if workers > 4 {
		workers = workers / 2 // each job races several solver processes; solverSem bounds the total
	}
	for w := 0; w < workers; w++ {
		wg.Add(1)
		go func() {
			defer wg.Done()
			for j := range ch {
				script := j.script
				file := filepath.Join(tmp, fmt.Sprintf("o%d.smt2", j.id))
				os.WriteFile(file, []byte(script), 0o644)
				v := &Verdict{Obl: j.o, Func: j.fr.Name}
				tmo := timeoutMs
				if j.o.Cover {
					tmo = 1500
				}
				// obligations that were not discharged at the last lock refresh get a short attempt
				// only (a refresh with hundreds of them at the full limit would take hours)
				if shortObl != nil && !j.o.Cover && shortObl(j.o.Name) && tmo > 10000 {
					tmo = 10000
				}
				if !j.o.Cover && tmo > 1500 {
					if r, backend, dt, outs, ok := stage1(file); ok {
						v.TimeS, v.Backend = dt, backend
						v.Output = strings.Join(outs, "\n")
						if r == "unsat" {
							v.Status = "discharged"
							if dumpAll && keepDir != "" {
								mu.Lock()
								os.MkdirAll(keepDir, 0o755)
								os.WriteFile(filepath.Join(keepDir, sanitize(j.o.Name)+".smt2"), []byte(script), 0o644)
								mu.Unlock()
							}
							verdicts[j.id] = v
							continue
						}
					}
				}
				// the sliced scripts share per-function caches: built under the function's lock
				if !j.o.Cover {
					genMu.Lock()
					j.script1 = j.fr.VC.script(j.o, 0)
					j.script2 = j.fr.VC.script(j.o, 2)
					if j.script2 == j.script1 {
						j.script2 = ""
					}
					j.script3 = j.fr.VC.script(j.o, 1)
					if j.script3 == j.script2 || j.script3 == j.script1 {
						j.script3 = ""
					}
					if j.script1 == j.script {
						j.script1 = ""
					}
					genMu.Unlock()
				}
				// trigger-based pre-instantiation (see preinst.go) of the full script and of the
				// smallest slice
				inst, instS := "", ""
				if !j.o.Cover && strings.Contains(script, ":pattern") {
					inst, _ = preInstantiate(script)
					small := j.script3
					if small == "" {
						small = j.script2
					}
					if small == "" {
						small = j.script1
					}
					if small != "" {
						instS, _ = preInstantiate(small)
					}
				}
				r, backend, dt, outs := race(script, file, tmo, j.o.Cover, j.script1, j.script2, j.script3, inst, instS)
				v.TimeS, v.Backend = dt, backend
				status := "undecided"
				switch {
				case j.o.Cover && r == "sat":
					status = "cover-ok"
				case j.o.Cover && r == "unsat":
					status = "cover-fail"
				case j.o.Cover:
					status = "cover-unknown"
				case r == "unsat":
					status = "discharged"
				case r == "sat":
					status = "refuted"
					mfile := file + ".model.smt2"
					os.WriteFile(mfile, []byte(script+"(get-model)\n"), 0o644)
					ctx, cancel := context.WithTimeout(context.Background(), time.Duration(tmo+2000)*time.Millisecond)
					for i := range variants {
						if variants[i].name == backend {
							_, mout, _ := runSolverCtx(ctx, variants[i].cmd(mfile, tmo))
							v.Model = mout
						}
					}
					cancel()
				}
				v.Status = status
				v.Output = strings.Join(outs, "\n")
				if (dumpAll || status == "refuted" || status == "undecided" || status == "cover-fail") && keepDir != "" {
					mu.Lock()
					os.MkdirAll(keepDir, 0o755)
					dst := filepath.Join(keepDir, sanitize(j.o.Name)+".smt2")
					os.WriteFile(dst, []byte(script), 0o644)
					if j.script2 != "" {
						os.WriteFile(dst+".hop2", []byte(j.script2), 0o644)
					}
					if j.script1 != "" {
						os.WriteFile(dst+".hop1", []byte(j.script1), 0o644)
					}
					v.Script = dst
					mu.Unlock()
				}
				verdicts[j.id] = v
			}
		}()
	}
	for _, j := range jobs {
		ch <- j
	}
	close(ch)
	wg.Wait()
	return append(verdicts, skipped...)
}

func truncate(s string, n int) string {
	if len(s) > n {
		return s[:n] + "…"
	}
	return s
}
