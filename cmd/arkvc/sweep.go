package main

// Determinism sweep (property C12). In the verifier's semantics every SSA instruction is a
// deterministic function of the state except a fixed list of sources. The sweep enumerates
// every such source in every function of package ecs (not only functions under contract) and
// requires each to be justified: either by a mechanical sufficient condition for order
// independence, or by an entry of the committed allow-list with its reason.

import (
	"bufio"
	"fmt"
	"go/token"
	"go/types"
	"os"
	"sort"
	"strings"

	"golang.org/x/tools/go/ssa"
)

type ndSource struct {
	Func   string
	Kind   string
	Line   string // source text of the line
	Pos    token.Position
	Reason string // why it is harmless ("" = unjustified)
}

func (s ndSource) key() string { return s.Func + "\t" + s.Kind + "\t" + s.Line }

func sweepDeterminism(L *Loaded, allowFile string) (all []ndSource, bad []ndSource, nfuncs, ninstr int) {
	allow := map[string]string{}
	if f, err := os.Open(allowFile); err == nil {
		sc := bufio.NewScanner(f)
		for sc.Scan() {
			l := sc.Text()
			if l == "" || strings.HasPrefix(l, "#") {
				continue
			}
			p := strings.SplitN(l, "\t", 4)
			if len(p) == 4 {
				allow[p[0]+"\t"+p[1]+"\t"+p[2]] = p[3]
			}
		}
		f.Close()
	}
	var names []string
	for n := range L.Funcs {
		names = append(names, n)
	}
	sort.Strings(names)
	seen := map[*ssa.Function]bool{}
	seenGlobal := map[string]bool{}
	for _, n := range names {
		fn := L.Funcs[n]
		if seen[fn] || strings.HasPrefix(fn.Name(), "__") || isSpecName(L, fn) {
			continue
		}
		// instances of generics share the origin's body; scan each body once
		seen[fn] = true
		if fn.Pkg != L.SPkg && !(fn.Origin() != nil && fn.Origin().Pkg == L.SPkg) {
			continue
		}
		nfuncs++
		for _, b := range fn.Blocks {
			for _, ins := range b.Instrs {
				ninstr++
				add := func(kind string, pos token.Pos) {
					p := L.Fset.Position(pos)
					s := ndSource{Func: n, Kind: kind, Pos: p, Line: lineText(p.Filename, p.Line)}
					all = append(all, s)
				}
				// package-level variables that hold references (slices, maps, pointers, ...) are
				// state shared by all worlds of the process: each use must be justified (immutable
				// after initialisation, or not world state)
				if fn.Name() != "init" {
					for _, op := range ins.Operands(nil) {
						if op == nil || *op == nil {
							continue
						}
						if g, ok := (*op).(*ssa.Global); ok && g.Pkg == L.SPkg && !strings.HasPrefix(g.Name(), "init$") {
							if pt, ok := g.Type().Underlying().(*types.Pointer); ok && hasReference(pt.Elem(), 0) {
								// one source per variable: keyed by its declaration
								if !seenGlobal[g.Name()] {
									seenGlobal[g.Name()] = true
									gp := L.Fset.Position(g.Pos())
									all = append(all, ndSource{Func: "package ecs", Kind: "shared-state:" + g.Name(), Pos: gp, Line: lineText(gp.Filename, gp.Line)})
								}
								if st, isStore := ins.(*ssa.Store); isStore && st.Addr == *op {
									add("shared-state-write:"+g.Name(), ins.Pos())
								}
							}
						}
					}
				}
				switch t := ins.(type) {
				case *ssa.Range:
					if _, ok := t.X.Type().Underlying().(*types.Map); ok {
						s := ndSource{Func: n, Kind: "map-range"}
						p := L.Fset.Position(t.Pos())
						s.Pos, s.Line = p, lineText(p.Filename, p.Line)
						if why, ok := orderIndependentMapLoop(L, fn, t); ok {
							s.Reason = "mechanical: " + why
						}
						all = append(all, s)
					}
				case *ssa.Go:
					add("go-statement", t.Pos())
				case *ssa.Select:
					add("select", t.Pos())
				case *ssa.Convert:
					// pointer to integer: addresses differ between runs
					if isUnsafePointer(t.X.Type()) && isInteger(t.Type()) {
						add("pointer-to-integer", t.Pos())
					}
				case ssa.CallInstruction:
					c := t.Common()
					if f, ok := c.Value.(*ssa.Function); ok && f.Pkg != nil {
						if f.Name() == "init" {
							continue
						}
						switch f.Pkg.Pkg.Path() {
						case "time":
							add("time."+f.Name(), t.Pos())
						case "math/rand", "math/rand/v2", "crypto/rand":
							add("random."+f.Name(), t.Pos())
						case "runtime":
							add("runtime."+f.Name(), t.Pos())
						case "os":
							add("os."+f.Name(), t.Pos())
						}
					}
				}
			}
		}
	}
	for i := range all {
		if all[i].Reason == "" {
			if why, ok := allow[all[i].key()]; ok {
				all[i].Reason = "allow-list: " + why
			}
		}
		if all[i].Reason == "" {
			bad = append(bad, all[i])
		}
	}
	return
}

// hasReference: does a value of type t hold memory that a copy shares with the original?
func hasReference(t types.Type, depth int) bool {
	if depth > 6 {
		return true
	}
	switch u := t.Underlying().(type) {
	case *types.Slice, *types.Map, *types.Pointer, *types.Chan, *types.Signature, *types.Interface:
		return true
	case *types.Struct:
		for i := 0; i < u.NumFields(); i++ {
			if hasReference(u.Field(i).Type(), depth+1) {
				return true
			}
		}
	case *types.Array:
		return hasReference(u.Elem(), depth+1)
	}
	return false
}

func isSpecName(L *Loaded, fn *ssa.Function) bool {
	for _, d := range L.Con.Decls {
		if d.Name == fn.Name() {
			return true
		}
	}
	return strings.HasPrefix(fn.Name(), "__c") || strings.HasPrefix(fn.Name(), "__lemma")
}

func isUnsafePointer(t types.Type) bool {
	b, ok := t.Underlying().(*types.Basic)
	return ok && b.Kind() == types.UnsafePointer
}

// orderIndependentMapLoop recognises loops "for _, v := range m { v.M(inv...) }" whose only
// effect is a call of a method on the iteration value with loop-invariant arguments, where the
// method is (*tableIDs).Remove: removals of the same id from distinct lists commute and a
// repeated removal from the same list is a no-op, so the final state does not depend on the
// iteration order.
func orderIndependentMapLoop(L *Loaded, fn *ssa.Function, r *ssa.Range) (string, bool) {
	loops := findLoops(fn)
	var ld *loopData
	for _, l := range loops {
		for b := range l.blocks {
			for _, ins := range b.Instrs {
				if n, ok := ins.(*ssa.Next); ok && n.Iter == r {
					if ld == nil || len(l.blocks) < len(ld.blocks) {
						ld = l
					}
				}
			}
		}
	}
	if ld == nil {
		return "", false
	}
	vc := newVC(L, fn)
	var callee *ssa.Function
	for b := range ld.blocks {
		for _, ins := range b.Instrs {
			if c, ok := ins.(*ssa.Call); ok {
				if f, ok := c.Common().Value.(*ssa.Function); ok {
					callee = f
				}
			}
		}
	}
	if callee == nil {
		return "", false
	}
	mods, all := vc.modOfFunc(callee)
	if all {
		return "", false
	}
	for b := range ld.blocks {
		for _, ins := range b.Instrs {
			switch t := ins.(type) {
			case *ssa.Next, *ssa.Extract, *ssa.If, *ssa.Jump, *ssa.DebugRef, *ssa.Phi, *ssa.FieldAddr:
			case *ssa.UnOp:
				// a load inside the loop must read a heap the callee does not write
				if t.Op != token.MUL {
					return "", false
				}
				hs := map[string]bool{}
				vc.staticStoreHeaps(t.X, hs)
				for h := range hs {
					if mods[h] {
						return "", false
					}
				}
			case *ssa.Call:
				f, ok := t.Common().Value.(*ssa.Function)
				if !ok || f.Name() != "Remove" || f.Signature.Recv() == nil || !strings.HasSuffix(f.Signature.Recv().Type().String(), "tableIDs") {
					return "", false
				}
				args := t.Common().Args
				ex, ok := args[0].(*ssa.Extract)
				if !ok || ex.Index != 2 {
					return "", false
				}
				if nx, ok := ex.Tuple.(*ssa.Next); !ok || nx.Iter != r {
					return "", false
				}
				for _, a := range args[1:] {
					if ai, ok := a.(ssa.Instruction); ok && ld.blocks[ai.Block()] {
						if u, ok := a.(*ssa.UnOp); !ok || u.Op != token.MUL {
							return "", false
						}
					}
				}
				// result must be unused
				if refs := t.Referrers(); refs != nil {
					for _, u := range *refs {
						if _, isDbg := u.(*ssa.DebugRef); !isDbg {
							return "", false
						}
					}
				}
			default:
				return "", false
			}
		}
	}
	return "body only calls (*tableIDs).Remove on the iteration value with arguments read from memory the call does not write (removals commute and are idempotent)", true
}

func (r *Report) runSweep(allowFile string) (int, map[string]any) {
	all, bad, nf, ni := sweepDeterminism(r.L, allowFile)
	var samples []any
	for _, s := range all {
		samples = append(samples, map[string]any{"function": s.Func, "kind": s.Kind, "source": s.Line, "justification": s.Reason})
	}
	cov := map[string]any{
		"explanation": fmt.Sprintf("exhaustive enumeration of non-determinism sources (map iteration, goroutines, select, time, random, runtime, pointer-to-integer) over the SSA of all %d functions (%d instructions) of package ecs; %d sources found, %d unjustified", nf, ni, len(all), len(bad)),
		"functions_scanned": nf, "instructions_scanned": ni, "sources": len(all), "unjustified": len(bad), "samples": samples, "exhaustive": true,
	}
	v := 0
	for _, s := range bad {
		v++
		dir := r.ReplayDir
		if dir == "" {
			dir = "replays"
		}
		os.MkdirAll(dir+"/"+r.Prop, 0o755)
		path := fmt.Sprintf("%s/%s/nd_%x.txt", dir, r.Prop, hashStr(s.key()))
		os.WriteFile(path, []byte(fmt.Sprintf("property: %s\nobligation: %s#order[%s: %s]\nA source of non-determinism that is neither mechanically order-independent nor on the allow-list:\n  function: %s\n  kind: %s\n  at: %s\n  source: %s\n", r.Prop, s.Func, s.Kind, s.Line, s.Func, s.Kind, s.Pos, s.Line)), 0o644)
		fmt.Printf("VIOLATION property=%s replay=%s obligation=%s#order[%s] no-failing-input-found\n", r.Prop, path, strings.ReplaceAll(s.Func, " ", "_"), s.Kind)
	}
	fmt.Printf("determinism sweep: functions=%d instructions=%d sources=%d unjustified=%d\n", nf, ni, len(all), len(bad))
	return v, cov
}
