#!/bin/bash
# Build the verifier offline with the pre-installed go1.26.8 and golang.org/x/tools v0.50.0.
set -e
cd "$(dirname "$0")"
export PATH=/opt/veriftools/go1.26.8/bin:$PATH GOFLAGS=-mod=mod GOPROXY=off GOTOOLCHAIN=local
mkdir -p bin
go build -o bin/arkvc ./cmd/arkvc
echo "built bin/arkvc"
