#!/usr/bin/env python3
"""Regenerates /verif/MANIFEST.json from the per-property table below.

A property is listed under `checks` only when CLAIMS[id] is set; everything else goes to
`not_applicable` with the reason given in NA[id].
"""
import json, subprocess, os

TECH = "contract-based deductive verification: VCs generated from go/ssa of the real package against contracts in /repo/ecs/verif_contracts_*.go, discharged by z3 5.1.0 / cvc5 1.0.3 / z3 4.8.12"
TRUST = ("trusted: arkvc generator and go/ssa, SMT solvers, go1.26.8-vs-go1.24 SSA agreement; data-plane/dependency contracts marked `trusted`/`dataplane` in the contract files; "
         "assumes clauses listed in evidence; only obligations recorded as discharged in obligations.lock are claimed, the rest is listed as unclaimed in evidence")

CLAIMS = {
 "C02": ("proof", "Function-by-function proof that the entity pool preserves its free-list invariant (ghost stack, inverse map, issued set, live counter) for every pool state: Get returns a handle that was never issued, makes exactly it alive and leaves every other handle's liveness unchanged; Recycle makes exactly the recycled handle dead and (outside the recorded 32-bit generation wrap-around F-11) no issued handle with that id is alive afterwards; Reset empties the issued set. Bit-exact 32/64-bit arithmetic; all recycle orders are covered by the universally quantified pre-state.", "6 C02",
         "pool level only so far; the coupling to the entity index (storage.createEntity/RemoveEntity) is claimed to the extent listed in evidence.functions_under_contract; assumes available < 2^32-1 (pigeonhole fact), fewer than 2^32 ids"),
 "C07": ("proof", "Proof that the lock is a set of outstanding lock bits: Lock returns a bit < 64 that was not outstanding and adds exactly it, panics exactly when all 64 are outstanding (without changing anything); Unlock panics exactly for a bit that is not outstanding and otherwise removes exactly it; the mutex-protected variants have the same contracts; IsLocked is non-emptiness; Reset clears. The bit pool's free list invariant carries this across all recycle orders.", "6 C07",
         "lock/bit-pool level; assumes bitPool.available < length at Recycle (pigeonhole fact); query open/close and the structural-operation coverage are claimed only as far as evidence.functions_under_contract lists them"),
 "C18": ("proof", "Proof that the type registry maps a known type to its old id and a new type to the next sequential id, panics (changing nothing) exactly when the documented maximum is exceeded, that unregisterLastComponent is the inverse used for the locked-world rollback, that the registry invariant (bijection types<->ids, Used mask = low count bits) is preserved, and that mask-to-ID-list conversion is free of index faults for every count up to and including the maximum (this obligation found defect F-1, repaired by a fix: commit). All 22 mask methods are proved against the set-of-bits view for both widths.", "6 C18",
         "resources (Resources.Add/Get/Has/Remove) and World.componentID rollback are claimed only as far as evidence.functions_under_contract lists them; types[idx] bound in toTypes is unclaimed (needs a population-count invariant)"),
 "C03": ("proof", "Proof of the matching predicates that queries are built from: filter.matches equals the documented predicate (mask contains every required component and, with exclusions, none of the excluded), Exclusive excludes exactly the complement, table.Matches equals 'every listed relation has exactly that target, generation included' (loop invariant over the relation list), and all mask primitives against the set-of-bits view. The iteration over archetypes/tables (Next/Count/EntityAt) is not yet under contract.", "6 C03",
         "only the predicates; the cursor logic of the generated queries is not claimed"),
 "C08": ("proof", "For every dispatch loop of the observer manager (create/remove entity, create/remove entity-relation, add, remove, set, set-relations, custom) two obligations per iteration are discharged against the DOCUMENTED predicate (docs/content/events, not events.go): the callback call is reached only if the predicate holds for the observer at hand (fires=>) and an iteration whose observer satisfies it reaches the callback (fires<=); bit-exact over all 2^256 masks. This found F-3 (partial removal fired a multi-component observer), fixed. Reset of the manager clears every event type (found F-2, fixed).", "6 C08",
         "the early-out tests against the per-event aggregates and the aggregate recomputation in RemoveObserver are claimed only as far as evidence lists them; callbacks havoc all modelled memory, so nil-safety of later iterations after a callback unregistered an observer (F-8) is unclaimed"),
 "C12": ("other", "Exhaustive enumeration, over the SSA of all functions of package ecs (not only those under contract), of every source of non-determinism (map iteration, goroutines, select, time, random, runtime, pointer-to-integer conversion); each must be mechanically order-independent (loop body only calls the commutative, idempotent (*tableIDs).Remove on the iteration value) or on the committed allow-list with its reason. Together with the contracts that define iteration order through slices only this is the sufficient condition of DESIGN 6 C12.", "6 C12",
         "level other: a sound sufficient condition, no schedules or seeds are explored; histories using Shrink with a finite time limit are excluded (timing-dependent by design)"),
 "C16": ("proof", "Proof that the Reset functions of the state components return them to the empty state: observerManager.Reset leaves no observer list non-empty for any of the 256 event types (loop invariant over event types; found F-2, fixed), entityPool.Reset empties the issued set and free list, bitPool/lock.Reset leave no lock bit outstanding, intPool.Reset and tableIDs.Clear empty their structures, mask Reset clears all bits.", "6 C16",
         "storage.Reset / World.Reset / archetype.Reset / cache.Reset as wholes are not yet under contract; re-registration after Reset is not claimed"),
 "C17": ("proof", "Proof of the binary entity codec for all 2^64 (id, generation) pairs and all byte strings: MarshalBinary yields exactly 8 bytes whose big-endian reading is (id, gen), UnmarshalBinary rejects exactly the inputs whose length is not 8 (leaving the entity untouched) and otherwise decodes that reading, AppendBinary keeps the prefix and appends that encoding; the round trip follows from the shared reading function. The pool functions that dump/load relies on are proved under C02.", "6 C17",
         "encoding/binary.BigEndian methods are modelled by assumed dependency contracts; JSON codec and Unsafe.DumpEntities/LoadEntities are not claimed"),
 "C20": ("proof", "All mask methods of both widths are proved against the same set-of-bits view, and the lemmas maskRelView / maskViewRel / maskNotRel prove that a 64-bit mask and a 256-bit mask are related (first word equal, others zero) iff they have the same view, so for component ids < 64 the two builds compute the same results mask-wise. Debug-vs-release equivalence of the query accessors is not claimed yet.", "6 C20",
         "lifting from per-method equivalence to whole histories is a meta-argument; ark_debug functions not under contract"),
}

NA = {}
DEFAULT_NA = "check not built yet in this session (engine exists; contracts for the functions this property is anchored in are still to be written; see DESIGN.md section 8.3)"

props = [json.loads(l) for l in open('/verif/properties.jsonl')]
checks = []
na = []
for p in props:
    i = p['id']
    if i in CLAIMS:
        cat, text, ref, note = CLAIMS[i]
        checks.append({
            "property_id": i, "quick_cmd": f"./check {i} quick", "thorough_cmd": f"./check {i} thorough",
            "evidence_file": f"evidence/{i}.json", "replay_cmd_template": "./check replay {path}", "engine": "arkvc",
            "level_claimed": {"category": cat, "text": text, "design_ref": "DESIGN.md section " + ref},
            "level_note": note + "; " + TRUST, "technique": TECH})
    else:
        na.append({"property_id": i, "reason": NA.get(i, DEFAULT_NA)})

hooks = subprocess.run(["git", "-C", "/repo", "log", "--format=%h %s", "--grep=^verif:"], capture_output=True, text=True).stdout.strip().split("\n")
m = {
 "version": 1,
 "setup_cmd": "./setup.sh",
 "hooks": {"guard": "verif", "enable": "contracts are comment-only files ecs/verif_contracts_*.go behind //go:build verif; arkvc loads /repo with -tags verif (plus ark_tiny / ark_debug where a check says so)",
           "baseline_off_cmd": "cd /repo && GOFLAGS=-mod=mod GOPROXY=off go test -vet=off -count=1 ./...",
           "source_commits": [h.split()[0] for h in hooks if h], "add_only": True},
 "engines": [{"name": "arkvc", "path": "cmd/arkvc", "serves_properties": sorted(CLAIMS.keys()),
              "kind_free_text": "verification-condition generator over go/ssa of the real package (bit-vector integers, Burstall-Bornat heap with algebraic addresses, ghost state, loop invariants, modular calls) + racing SMT portfolio"}],
 "checks": checks,
 "notes": "Contracts: /repo/ecs/verif_contracts_*.go. Known findings: known_findings.txt. Claimed obligations: obligations.lock. Design and results: DESIGN.md.",
 "not_applicable": na,
}
json.dump(m, open('/verif/MANIFEST.json', 'w'), indent=1)
print("checks:", [c['property_id'] for c in checks], "n/a:", len(na))
