#!/usr/bin/env python3
"""Regenerates /verif/MANIFEST.json from the per-property table below.

A property is listed under `checks` only when CLAIMS[id] is set; everything else goes to
`not_applicable` with the reason given in NA[id].
"""
import json, subprocess, os

TECH = "contract-based deductive verification: VCs generated from go/ssa of the real package against contracts in /repo/ecs/verif_contracts_*.go, discharged by z3 5.1.0 / cvc5 1.0.3 / z3 4.8.12"
TRUST = ("trusted: arkvc generator and go/ssa, SMT solvers, go1.26.8-vs-go1.24 SSA agreement; data-plane/dependency contracts marked `trusted`/`dataplane` in the contract files; "
         "assumes clauses listed in evidence; only obligations recorded as discharged in obligations.lock are claimed, the rest is listed as unclaimed in evidence")

CLAIMS = {
 "C02": ("proof", "Function-by-function proof that the entity pool preserves its free-list invariant (ghost stack, inverse map, issued set, live counter) for every pool state: Get returns a handle that was never issued, makes exactly it alive and leaves every other handle's liveness unchanged; Recycle makes exactly the recycled handle dead and (outside the recorded 32-bit generation wrap-around F-11) no issued handle with that id is alive afterwards; Reset empties the issued set. Bit-exact 32/64-bit arithmetic; all recycle orders are covered by the universally quantified pre-state.", "6 C02",
         "pool level only so far; the coupling to the entity index (storage.createEntity/RemoveEntity) is claimed to the extent listed in evidence.functions_under_contract; assumes available < 2^32-1 (pigeonhole fact), fewer than 2^32 ids"),
 "C07": ("proof", "Proof that the lock is a set of outstanding lock bits: Lock returns a bit < 64 that was not outstanding and adds exactly it, panics exactly when all 64 are outstanding (without changing anything); Unlock panics exactly for a bit that is not outstanding and otherwise removes exactly it; the mutex-protected variants have the same contracts; IsLocked is non-emptiness; Reset clears. The bit pool's free list invariant carries this across all recycle orders.", "6 C07",
         "lock/bit-pool level; assumes bitPool.available < length at Recycle (pigeonhole fact); query open/close and the structural-operation coverage are claimed only as far as evidence.functions_under_contract lists them"),
 "C18": ("proof", "Proof that the type registry maps a known type to its old id and a new type to the next sequential id, panics (changing nothing) exactly when the documented maximum is exceeded, that unregisterLastComponent is the inverse used for the locked-world rollback, that the registry invariant (bijection types<->ids, Used mask = low count bits) is preserved, and that mask-to-ID-list conversion is free of index faults for every count up to and including the maximum (this obligation found defect F-1, repaired by a fix: commit). All 22 mask methods are proved against the set-of-bits view for both widths.", "6 C18",
         "resources (Resources.Add/Get/Has/Remove) and World.componentID rollback are claimed only as far as evidence.functions_under_contract lists them; types[idx] bound in toTypes is unclaimed (needs a population-count invariant)"),
 "C03": ("proof", "Proof of the matching predicates that queries are built from: filter.matches equals the documented predicate (mask contains every required component and, with exclusions, none of the excluded), Exclusive excludes exactly the complement, table.Matches equals 'every listed relation has exactly that target, generation included' (loop invariant over the relation list), and all mask primitives against the set-of-bits view. The iteration over archetypes/tables (Next/Count/EntityAt) is not yet under contract.", "6 C03",
         "only the predicates; the cursor logic of the generated queries is not claimed"),
 "C08": ("proof", "For every dispatch loop of the observer manager (create/remove entity, create/remove entity-relation, add, remove, set, set-relations, custom) two obligations per iteration are discharged against the DOCUMENTED predicate (docs/content/events, not events.go): the callback call is reached only if the predicate holds for the observer at hand (fires=>) and an iteration whose observer satisfies it reaches the callback (fires<=); bit-exact over all 2^256 masks. This found F-3 (partial removal fired a multi-component observer), fixed. Reset of the manager clears every event type (found F-2, fixed).", "6 C08",
         "the early-out tests against the per-event aggregates and the aggregate recomputation in RemoveObserver are claimed only as far as evidence lists them; callbacks havoc all modelled memory, so nil-safety of later iterations after a callback unregistered an observer (F-8) is unclaimed"),
 "C12": ("other", "Exhaustive enumeration, over the SSA of all functions of package ecs (not only those under contract), of every source of non-determinism (map iteration, goroutines, select, time, random, runtime, pointer-to-integer conversion); each must be mechanically order-independent (loop body only calls the commutative, idempotent (*tableIDs).Remove on the iteration value) or on the committed allow-list with its reason. Together with the contracts that define iteration order through slices only this is the sufficient condition of DESIGN 6 C12.", "6 C12",
         "level other: a sound sufficient condition, no schedules or seeds are explored; histories using Shrink with a finite time limit are excluded (timing-dependent by design)"),
 "C16": ("proof", "Proof that the Reset functions of the state components return them to the empty state: observerManager.Reset leaves no observer list non-empty for any of the 256 event types (loop invariant over event types; found F-2, fixed), entityPool.Reset empties the issued set and free list, bitPool/lock.Reset leave no lock bit outstanding, intPool.Reset and tableIDs.Clear empty their structures, mask Reset clears all bits.", "6 C16",
         "storage.Reset / World.Reset / archetype.Reset / cache.Reset as wholes are not yet under contract; re-registration after Reset is not claimed"),
 "C17": ("proof", "Proof of the binary entity codec for all 2^64 (id, generation) pairs and all byte strings: MarshalBinary yields exactly 8 bytes whose big-endian reading is (id, gen), UnmarshalBinary rejects exactly the inputs whose length is not 8 (leaving the entity untouched) and otherwise decodes that reading, AppendBinary keeps the prefix and appends that encoding; the round trip follows from the shared reading function. The pool functions that dump/load relies on are proved under C02.", "6 C17",
         "encoding/binary.BigEndian methods are modelled by assumed dependency contracts; JSON codec and Unsafe.DumpEntities/LoadEntities are not claimed"),
 "C20": ("proof", "All mask methods of both widths are proved against the same set-of-bits view, and the lemmas maskRelView / maskViewRel / maskNotRel prove that a 64-bit mask and a 256-bit mask are related (first word equal, others zero) iff they have the same view, so for component ids < 64 the two builds compute the same results mask-wise. Debug-vs-release equivalence of the query accessors is not claimed yet.", "6 C20",
         "lifting from per-method equivalence to whole histories is a meta-argument; ark_debug functions not under contract"),
 "C01": ("proof", "Local obligations of the component store: capPow2 is the least power of two >= n (n <= 2^31), idMap Get/Set is a total map that survives growth, storage.createEntity/RemoveEntity preserve every conjunct of the index invariant except the two row<->index bijection conjuncts (those are generated and listed as unclaimed), the swap-remove preconditions and the index fix-up bounds are proved, table Extend/Shrink keep the rows (ghost rowEnt). Data-plane functions (table.Add/Remove/GetEntity/adjustCapacity) are used through trusted contracts.", "6 C01",
         "reduced strength (DESIGN 8.3 fallback): no value-level (cell) postconditions, no add/remove/exchange contracts; the central bijection conjuncts of indexInv are NOT discharged within the time limits and are not claimed"),
 "C04": ("proof", "tableIDs (list + inverse map used for every relation index) Append/Remove/Clear are proved against the set view with frames; table.Matches compares the full target including generation; storage.RemoveEntity detaches through cleanupArchetypes (trusted contract) and keeps the pool/index conjuncts listed in evidence; the protocol obligation that every freed table leaves the cache (found F-7) and the repaired FreeTable un-indexing are covered by the pairing pass and replays.", "6 C04",
         "cleanupArchetypes, createTable, AddTable, RemoveTarget are not proved from their bodies"),
 "C05": ("proof", "Registered filters stay in step with table life-cycle events: the protocol obligations 'FreeTable is followed by cache.removeTable' and 'AddTable is followed by cache.addTable' hold on every path of every function (SSA pass; found F-7 in Shrink, fixed); filter.matches and table.Matches (used by cache.addTable and getCacheTables) equal the documented predicates; tableIDs and intPool[cacheID] (fresh cache ids) are proved; cache.removeTable removes the table from every entry and keeps other members (loop invariants 'done'/'others' discharged, per-entry invariant preservation unclaimed).", "6 C05",
         "cache.register/unregister/addTable/getCacheTables/Reset are not proved from their bodies; open-query stability (F-16) is not examined"),
 "C09": ("proof", "For entity removal: at the point where the removal callbacks run, the removed entity is proved to be alive, to be a live pool slot holding exactly that handle, and to be located at exactly the row its index entry names (assert obligations in storage.RemoveEntity), and the world lock is taken around the callbacks and released afterwards (lock balance). The dispatch obligations of C08 give which observers run.", "6 C09",
         "only RemoveEntity; add/remove/exchange/batch call sites (F-5, F-6, F-10 of DESIGN 7) are not under contract"),
 "C10": ("proof", "Alive-guard obligation on the SSA of every exported operation with an entity-handle parameter (165 parameters): the entity index is not indexed with the handle's id, directly or through callees, before the handle passed an Alive check whose failure branch does not continue (found F-4 in CopyEntity, fixed). storage.RemoveEntity is additionally proved to panic exactly for a dead handle without changing anything (xpure), and the lock guard of C07 covers 'changing a locked world'.", "6 C10",
         "duplicate/missing component and relation-target rejections (graph.Find*, checkRelation*) are not under contract; 'state unchanged after the panic' is proved only for RemoveEntity"),
 "C13": ("other", "Lock-set discipline on the SSA: in every function that locks a sync.Mutex field, fields written under the mutex are never accessed without it (found the FilterN.Query race F-9, recorded as known finding with a race-detector replay), and LockSafe/UnlockSafe use no other field of the lock outside their critical section; the sequential contracts of lock/bitPool (C07) then apply atomically. No schedules are explored.", "6 C13",
         "level other: a sufficient condition; exactness of concurrent queries relies on C03/C07 and DRF-SC; the ownership of query values by one goroutine is assumed"),
 "C15": ("proof", "table.Shrink / CanShrink are proved: after Shrink len <= cap, cap == max(capPow2(len), minimum) when it shrank and cap <= that bound when it did not, CanShrink says exactly whether Shrink would shrink, rows (ghost rowEnt) are preserved; capPow2 is the least power of two; the protocol obligation that a table freed by storage.Shrink leaves the filter cache holds (found F-7, fixed) and World.Shrink checks the world lock (found F-23, fixed).", "6 C15",
         "storage.Shrink's loops (time-boxed pass, remaining-work scan, convergence) are not under contract"),
 "C19": ("proof", "table.Stats/UpdateStats produce exactly size, capacity and the documented memory products and the in-place update equals the fresh computation; entityPool.Len equals the ghost live counter that Get increments and Recycle decrements (creations minus removals), Cap = used + recycled, TotalCap >= Cap.", "6 C19",
         "archetype.Stats/UpdateStats and World.Stats (sums over tables and archetypes) are not under contract"),
 "C14": ("proof", "Schema-instantiated contracts (generated mechanically for every arity by tools/gen_arity_contracts.py, one statement per arity and type-parameter position) on the generic origin of the generated code: QueryN.setTable wires column pointer and item size number k to the column of component number k of the table (N = 1..8), QueryN.Get returns for position k exactly column pointer k advanced by cursor.index items of size k, NewMapN (N = 1..12) and NewFilterN (N = 1..8) take storage pointer number k from component id number k and build the mask that is exactly the set of their ids (newMask proved against the set view). These are the places where an untyped pointer, an item size or an id position can be mixed up without a compile error.", "6 C14",
         "the generic origins are verified once with the type parameters instantiated by a fixed type (the code does not depend on them); ComponentID is trusted; that the k-th id is the id of the k-th type parameter (reflect.TypeFor) is not expressible; Map/Exchange operations delegate to World.add/remove/exchange (C01); the remaining generated methods (batch, observers, relations accessors) are not under contract"),
 "C11": ("exploration", "BOUNDED stand-in, labelled bounded and not counted as proved: the data-plane functions (column.ZeroRange/Reset/Zero/Set/CopyToEnd, and through World operations table.Add/Remove/Reset/AddAll/adjustCapacity/Shrink) move raw memory through unsafe/reflect and are outside the reach of the contract verifier, which uses them through trusted contracts. bounded/C11_dataplane_test.go executes the real functions on EVERY case up to capacity 70 (all start/len pairs, six pointer-free item layouts incl. size 0 and 3, a pointer-bearing layout, Reset on both sides of its 64-row strategy switch) and compares the memory byte for byte with the contract; and it checks the clean-memory invariant (every row at or beyond len of every table is all-zero in every column) after every step of 420 enumerated histories (1..70 entities x single removal / batch removal / single move / batch move / removal+Shrink / Reset), then that components added without a value read as zero. The first clause of C11 is decided up to that bound.", "9, 11.7",
         "bounded (capacity <= 70, the listed layouts and histories); GC-safety of copies of pointer-bearing components and collectability of data referenced only by removed components are runtime properties that no contract or bounded check here expresses: not claimed; table.Shrink/CanShrink obligations (C15) that serve C11 are proved deductively"),
}

NA = {
 "C06": "not decided: the batch operations (exchangeBatch, setRelationsBatch, RemoveEntities, NewEntities and the *BatchFn wrappers) have 5-11 loops each over callees that are not yet under contract; only the lock balance of these functions (C07) and the relation predicate table.Matches are checked, which does not carry the property",
}
DEFAULT_NA = "check not built yet in this session (engine exists; contracts for the functions this property is anchored in are still to be written; see DESIGN.md section 8.3)"

props = [json.loads(l) for l in open('/verif/properties.jsonl')]
checks = []
na = []
for p in props:
    i = p['id']
    if i in CLAIMS:
        cat, text, ref, note = CLAIMS[i]
        checks.append({
            "property_id": i, "quick_cmd": f"./check {i} quick", "thorough_cmd": f"./check {i} thorough",
            "evidence_file": f"evidence/{i}.json", "replay_cmd_template": "./check replay {path}", "engine": "arkvc",
            "level_claimed": {"category": cat, "text": text, "design_ref": "DESIGN.md section " + ref},
            "level_note": note + "; " + TRUST, "technique": TECH})
    else:
        na.append({"property_id": i, "reason": NA.get(i, DEFAULT_NA)})

hooks = subprocess.run(["git", "-C", "/repo", "log", "--format=%h %s", "--grep=^verif:"], capture_output=True, text=True).stdout.strip().split("\n")
m = {
 "version": 1,
 "setup_cmd": "./setup.sh",
 "hooks": {"guard": "verif", "enable": "contracts are comment-only files ecs/verif_contracts_*.go behind //go:build verif; arkvc loads /repo with -tags verif (plus ark_tiny / ark_debug where a check says so)",
           "baseline_off_cmd": "cd /repo && GOFLAGS=-mod=mod GOPROXY=off go test -vet=off -count=1 ./...",
           "source_commits": [h.split()[0] for h in hooks if h], "add_only": True},
 "engines": [{"name": "arkvc", "path": "cmd/arkvc", "serves_properties": sorted(CLAIMS.keys()),
              "kind_free_text": "verification-condition generator over go/ssa of the real package (bit-vector integers, Burstall-Bornat heap with algebraic addresses, ghost state, loop invariants, modular calls) + racing SMT portfolio"}],
 "checks": checks,
 "notes": "Contracts: /repo/ecs/verif_contracts_*.go. Known findings: known_findings.txt. Claimed obligations: obligations.lock. Design and results: DESIGN.md.",
 "not_applicable": na,
}
json.dump(m, open('/verif/MANIFEST.json', 'w'), indent=1)
print("checks:", [c['property_id'] for c in checks], "n/a:", len(na))
