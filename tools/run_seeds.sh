#!/bin/bash
# tools/run_seeds.sh [seed-dir...]   apply each seeded change to /repo, run the check of its property (quick), undo
cd /verif
if [ -n "$(git -C /repo status --porcelain)" ]; then echo "refusing: /repo has uncommitted changes (they would be lost)"; exit 2; fi
for d in "${@:-seeded/*}"; do
  [ -f "$d/patch.diff" ] || continue
  id=$(basename "$d" | cut -d- -f1)
  git -C /repo apply "$(pwd)/$d/patch.diff" || { echo "$d: patch does not apply"; continue; }
  out=$(ARKVC_EVIDENCE_DIR=/var/tmp/seed_evidence ./check "$id" quick 2>&1)
  rc=$?
  git -C /repo checkout -- .
  n=$(echo "$out" | grep -c "^VIOLATION")
  echo "$d: exit=$rc violations=$n  $(echo "$out" | grep '^VIOLATION' | head -2 | cut -c1-220 | tr '\n' ' ')"
done
