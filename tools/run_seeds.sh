#!/bin/bash
# tools/run_seeds.sh [seed-dir...]   apply each seeded change to a scratch copy of /repo's HEAD, run the
# quick check of its property against that copy (ARKVC_REPO), undo. /repo itself is not touched and
# the evidence files of these runs go to /var/tmp/seed_evidence, not to /verif/evidence.
cd /verif
S=/var/tmp/seedrepo
rm -rf "$S"
git clone -q /repo "$S" || exit 2
trap 'rm -rf "$S"' EXIT
for d in "${@:-seeded/*}"; do
  [ -f "$d/patch.diff" ] || continue
  id=$(basename "$d" | cut -d- -f1)
  git -C "$S" apply "$(pwd)/$d/patch.diff" || { echo "$d: patch does not apply"; continue; }
  out=$(ARKVC_REPO="$S" ARKVC_EVIDENCE_DIR=/var/tmp/seed_evidence ./check "$id" quick 2>&1)
  rc=$?
  git -C "$S" checkout -q -- .
  git -C "$S" clean -fdq
  n=$(echo "$out" | grep -c "^VIOLATION")
  echo "$d: exit=$rc violations=$n  $(echo "$out" | grep '^VIOLATION' | head -2 | cut -c1-220 | tr '\n' ' ')"
done
