#!/bin/bash
# tools/mut.sh <patch-file|-> <arkvc args...>   apply a patch to a scratch copy of /repo and run arkvc on it
set -u
P=$1; shift
D=$(mktemp -d /var/tmp/mut.XXXXXX)
cp -a /repo/. "$D/"
if [ "$P" != "-" ]; then (cd "$D" && git apply "$P") || { echo "patch does not apply"; rm -rf "$D"; exit 3; }; fi
if [ -n "${MUT_SED:-}" ]; then (cd "$D" && sed -i "$MUT_SED" "$MUT_FILE"); (cd "$D" && git diff --stat | tail -1); fi
/verif/bin/arkvc -repo "$D" -verif /verif -known /verif/known_findings.txt "$@"
rc=$?
rm -rf "$D"
exit $rc
