#!/bin/bash
# tools/confirm_seed.sh <seed-dir>   confirm a seeded change in a scratch worktree:
#   suite passes with the change, demo fails with it, demo passes without it.
set -u
S=$(cd "$1" && pwd)
W=$(mktemp -d /tmp/confirm.XXXXXX)
git -C /repo worktree add -q --detach "$W/wt" HEAD || exit 2
cd "$W/wt"
export GOFLAGS=-mod=mod GOPROXY=off
res() { echo "$1" | tee -a "$S/confirm.log"; }
: > "$S/confirm.log"
git apply "$S/patch.diff" || { res "patch does not apply"; git -C /repo worktree remove --force "$W/wt"; rm -rf "$W"; exit 2; }
if go test -vet=off -count=1 ./... >"$W/suite.log" 2>&1; then res "suite-with-change: PASS"; SUITE=pass; else res "suite-with-change: FAIL"; SUITE=fail; tail -5 "$W/suite.log"; fi
cp "$S/demo_test.go" ecs/zz_seed_demo_test.go
if go test -vet=off -count=1 -timeout 300s -run 'TestSeedDemo' ./ecs >"$W/demo1.log" 2>&1; then res "demo-with-change: PASS (unexpected)"; D1=pass; else res "demo-with-change: FAIL (expected)"; D1=fail; fi
git checkout -q -- . 
if go test -vet=off -count=1 -timeout 300s -run 'TestSeedDemo' ./ecs >"$W/demo2.log" 2>&1; then res "demo-without-change: PASS (expected)"; D2=pass; else res "demo-without-change: FAIL (unexpected)"; D2=fail; tail -5 "$W/demo2.log"; fi
cd /
git -C /repo worktree remove --force "$W/wt"; rm -rf "$W"
[ "$SUITE" = pass ] && [ "$D1" = fail ] && [ "$D2" = pass ] && { res "CONFIRMED"; exit 0; }
res "NOT CONFIRMED"; exit 1
