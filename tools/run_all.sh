#!/bin/bash
# tools/run_all.sh [quick|thorough]   run every registered check on the unchanged tree and summarise
cd /verif
tier=${1:-quick}
for id in $(python3 -c "import json;print(' '.join(c['property_id'] for c in json.load(open('MANIFEST.json'))['checks']))" 2>/dev/null || echo C01 C02 C03 C04 C05 C07 C08 C09 C10 C12 C13 C15 C16 C17 C18 C19 C20); do
  s=$(date +%s)
  out=$(./check "$id" "$tier" 2>&1); rc=$?
  e=$(date +%s)
  echo "$id exit=$rc violations=$(echo "$out" | grep -c '^VIOLATION') known=$(echo "$out" | grep -c '^KNOWN-FINDING') wall=$((e-s))s | $(echo "$out" | grep '^property=' | tail -1 | cut -c1-200)"
  echo "$out" | grep '^VIOLATION' | head -5 | cut -c1-250
done
