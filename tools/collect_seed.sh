#!/bin/bash
# tools/collect_seed.sh <tag> <Cnn> <name>   move a sub-agent's deliverables into seeded/<Cnn>-<name>/ and confirm them
set -u
TAG=$1; ID=$2; NAME=$3
D=/verif/seeded/$ID-$NAME
mkdir -p "$D"
cp /tmp/seed_$TAG.diff "$D/patch.diff"
cp /tmp/seed_${TAG}_demo_test.go "$D/demo_test.go"
cp /tmp/seed_${TAG}_meta.txt "$D/agent_notes.txt"
/verif/tools/confirm_seed.sh "$D" | tail -4
git -C /repo worktree remove --force /tmp/seed_$TAG 2>/dev/null; rm -rf /tmp/seed_$TAG /tmp/prop_$TAG.txt /tmp/prompt_$TAG.txt
