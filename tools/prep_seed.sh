#!/bin/bash
# tools/prep_seed.sh <tag> <Cnn> [hint...]   prepare /tmp/seed_<tag> (worktree of /repo without the
# contract files) and /tmp/prop_<tag>.txt, print the prompt for the sub-agent
set -eu
TAG=$1; ID=$2; shift 2; HINT="${*:-}"
W=/tmp/seed_$TAG
rm -rf "$W"; git -C /repo worktree prune
git -C /repo worktree add -q --detach "$W" HEAD
rm -f "$W"/ecs/verif_contracts_*.go
python3 - "$ID" > /tmp/prop_$TAG.txt <<'PY'
import json,sys
for l in open('/verif/properties.jsonl'):
    d=json.loads(l)
    if d['id']==sys.argv[1]: print(json.dumps(d,indent=1))
PY
sed -e "s/PID/$TAG/g" -e "s|^HINT$|$HINT|" /verif/tools/seed_prompt.txt
