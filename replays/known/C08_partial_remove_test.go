package ecs

// Replay for finding F-3 (property C08): an OnRemoveComponents observer For(A, B) must only
// activate when A and B are removed together ("If multiple components are provided, all must be
// added/removed at the same time to trigger the observer", observer.go / docs/content/events).
// Removing only A from an entity that has A and B fires it.
//
// Counterexample of the verifier for (*observerManager).FireRemove#fires=>[L1.doc]:
// compsMask = {A,B}, oldMask = {A,B}, newMask = {B}.

import "testing"

type verifReplayA struct{ V int }
type verifReplayB struct{ V int }

func TestVerifReplayC08PartialRemove(t *testing.T) {
	w := NewWorld()
	fired := 0
	Observe(OnRemoveComponents).For(C[verifReplayA](), C[verifReplayB]()).Do(func(Entity) { fired++ }).Register(w)
	m := NewMap2[verifReplayA, verifReplayB](w)
	e := m.NewEntity(&verifReplayA{}, &verifReplayB{})
	NewMap1[verifReplayA](w).Remove(e) // removes A only; B stays
	if fired != 0 {
		t.Fatalf("observer For(A,B) fired %d time(s) although only A was removed", fired)
	}
}
