package ecs

// Replay for finding F-1 (property C18): with the documented maximum of 256 component types
// registered, converting an archetype mask to an ID list indexes the mask's word array at 4.
//
// Counterexample of the verifier for (*bitMask256).toTypes#safe[bounds: if b.bits[i] == 0 {]:
// len(reg.Components) == 256, i == 4. Here the same state is reached through the public API.

import (
	"reflect"
	"testing"
)

func TestVerifReplayC18ToTypes256(t *testing.T) {
	if maskTotalBits != 256 {
		t.Skip("default build only")
	}
	w := NewWorld()
	var ids []ID
	for i := 0; i < maskTotalBits; i++ {
		tp := reflect.ArrayOf(i+1, reflect.TypeFor[uint8]()) // 256 distinct component types
		ids = append(ids, w.componentID(tp))
	}
	if int(ids[255].id) != 255 {
		t.Fatalf("setup: expected id 255, got %d", ids[255].id)
	}
	// using the last registered component in an entity creates an archetype, which converts its mask
	e := w.Unsafe().NewEntity(ids[255])
	if !w.Alive(e) || !w.Unsafe().Has(e, ids[255]) {
		t.Fatal("entity with component 255 not created correctly")
	}
}
