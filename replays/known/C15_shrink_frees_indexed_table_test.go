package ecs

// Replay for finding F-7 (properties C15, C05, C04): Shrink frees an empty relation table whose
// target is still alive, but leaves it in the filter cache (and, for archetypes with a single
// relation, in the relation index). When an entity for the same target is created later, the
// freed table is recycled and added to the cache a second time: a registered filter then
// counts/visits its entities twice while an identical unregistered filter does not.

import "testing"

type verifReplayChildOf struct{ RelationMarker }

func TestVerifReplayC15ShrinkCache(t *testing.T) {
	w := NewWorld()
	parent := w.NewEntity()
	m := NewMap1[verifReplayChildOf](w)
	child := m.NewEntity(&verifReplayChildOf{}, Rel[verifReplayChildOf](parent))

	cached := NewFilter1[verifReplayChildOf](w).Register()
	plain := NewFilter1[verifReplayChildOf](w)

	w.RemoveEntity(child) // the relation table for parent is now empty; parent is alive
	w.Shrink()            // frees that table
	m.NewEntity(&verifReplayChildOf{}, Rel[verifReplayChildOf](parent))

	qc := cached.Query()
	nc := qc.Count()
	qc.Close()
	qp := plain.Query()
	np := qp.Count()
	qp.Close()
	if nc != np {
		t.Fatalf("registered filter counts %d entities, identical unregistered filter %d", nc, np)
	}
}
