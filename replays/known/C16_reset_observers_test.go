package ecs

// Replay for finding F-2 (property C16): with an observer of the highest event type (255,
// OnRemoveRelations) registered, observerManager.Reset loops over "range maxEventType+1" in
// uint8, i.e. over zero event types, and clears no observer at all.
//
// Counterexample of the verifier for (*observerManager).Reset#post[none]: maxEventType == 0xff.

import "testing"

func TestVerifReplayC16ResetObservers(t *testing.T) {
	w := NewWorld()
	fired := 0
	Observe(OnCreateEntity).Do(func(Entity) { fired++ }).Register(w)
	Observe(OnRemoveRelations).Do(func(Entity) {}).Register(w) // event type 255
	w.Reset()
	w.NewEntity()
	if fired != 0 {
		t.Fatalf("observer registered before Reset fired %d time(s) after Reset (Stats().Observers = %d)", fired, w.Stats().Observers)
	}
}
