package ecs

// Replay for finding F-23 (property C07): World.Shrink is a structure-changing operation
// (it re-allocates the tables' column memory and frees relation tables) but does not check the
// world lock. Called while a query is open it succeeds, and the component pointers the open
// query handed out then address the old, detached memory: writes through them are lost.
//
// Found by the lock-discipline obligation (*World).Shrink#guard(lock): the exported operation
// reaches structural primitives without a dominating checkLocked.

import "testing"

type verifReplayPos struct{ X, Y float64 }

func TestVerifReplayC07ShrinkLocked(t *testing.T) {
	w := NewWorld(1)
	m := NewMap1[verifReplayPos](w)
	e := m.NewEntity(&verifReplayPos{1, 2})
	var others []Entity
	for i := 0; i < 100; i++ { // grow the table, then empty it again: capacity 128, size 1
		others = append(others, m.NewEntity(&verifReplayPos{}))
	}
	for _, o := range others {
		w.RemoveEntity(o)
	}

	filter := NewFilter1[verifReplayPos](w)
	query := filter.Query()
	if !query.Next() {
		t.Fatal("setup: query is empty")
	}
	pos := query.Get()

	panicked := false
	func() {
		defer func() { panicked = recover() != nil }()
		w.Shrink() // structural change on a locked world
	}()
	pos.X = 42 // write through the pointer the open query returned
	query.Close()

	if got := m.Get(e).X; !panicked && got != 42 {
		t.Fatalf("Shrink succeeded on a locked world and the write through the open query's pointer was lost: got X=%v, want 42", got)
	}
	if !panicked {
		t.Fatalf("Shrink did not panic although the world was locked by an open query")
	}
}
