package ecs

// Replay for finding F-4 (property C10): World.CopyEntity performs no alive check on its handle.
// For a removed entity whose id was recycled it silently copies the NEW incarnation; for a
// removed entity whose id is free it takes an id from the pool before faulting, so the
// "rejected" call has changed the world.
//
// Found by the obligation (*World).CopyEntity#guard(alive).

import "testing"

type verifReplayCopyComp struct{ V int }

func TestVerifReplayC10CopyDeadEntity(t *testing.T) {
	w := NewWorld()
	m := NewMap1[verifReplayCopyComp](w)
	old := m.NewEntity(&verifReplayCopyComp{1})
	w.RemoveEntity(old)
	fresh := m.NewEntity(&verifReplayCopyComp{2}) // recycles the id with a newer generation
	if fresh.id != old.id || w.Alive(old) {
		t.Skip("setup: id not recycled")
	}
	used := w.Stats().Entities.Used
	panicked := false
	func() {
		defer func() { panicked = recover() != nil }()
		w.CopyEntity(old) // stale handle
	}()
	if !panicked {
		t.Fatalf("CopyEntity accepted a removed (recycled) handle; entities used %d -> %d", used, w.Stats().Entities.Used)
	}
}
