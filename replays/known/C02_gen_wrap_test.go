package ecs

// Replay for known finding F-11 (property C02): the 32-bit generation counter wraps.
//
// The verifier's counterexample for (*entityPool).Recycle#post[never-again] is the pre-state
// "slot e.id has generation 0xffffffff". That state is reachable through the public API by
// 2^32-1 create/remove cycles on one id (about two minutes; see the thorough tier); here the
// counter is advanced directly so that the replay takes milliseconds. Everything else goes
// through the real code.

import (
	"math"
	"testing"
)

func TestVerifReplayC02GenWrap(t *testing.T) {
	w := NewWorld()
	first := w.NewEntity() // handle (id, gen 0), issued to the user
	w.RemoveEntity(first)  // dead from now on, "never again" alive
	if w.Alive(first) {
		t.Fatal("setup: removed entity is alive")
	}
	// advance the generation of that slot to the last value (what 2^32-2 further cycles do)
	w.storage.entityPool.entities[first.id].gen = math.MaxUint32
	e := w.NewEntity() // recycles the id with generation 0xffffffff
	if e.id != first.id || e.gen != math.MaxUint32 {
		t.Skip("setup: unexpected recycling order")
	}
	w.RemoveEntity(e) // generation wraps to 0
	if w.Alive(first) {
		t.Fatalf("handle %v removed long ago is alive again after generation wrap-around", first)
	}
}
