package ecs

// Second replay for finding F-7: after Shrink freed the (single-relation) table of a live target, the table
// stayed in the relation index; recycled for the same target it was listed twice, so even an
// unregistered query with that relation target visited the entity twice.
import "testing"

type verifReplayChildOf3 struct{ RelationMarker }

func TestVerifReplayC15ShrinkRelationIndex(t *testing.T) {
	w := NewWorld()
	parent := w.NewEntity()
	m := NewMap1[verifReplayChildOf3](w)
	child := m.NewEntity(&verifReplayChildOf3{}, Rel[verifReplayChildOf3](parent))
	w.RemoveEntity(child)
	w.Shrink()
	m.NewEntity(&verifReplayChildOf3{}, Rel[verifReplayChildOf3](parent))
	f := NewFilter1[verifReplayChildOf3](w)
	q := f.Query(Rel[verifReplayChildOf3](parent))
	n := 0
	for q.Next() {
		n++
	}
	if n != 1 {
		t.Fatalf("query with relation target visits %d entities, want 1", n)
	}
}
