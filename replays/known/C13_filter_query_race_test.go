package ecs

//verif:race

// Replay for known finding F-9 (property C13): FilterN.Query reads f.generation before taking
// the filter's mutex and f.rareComp after releasing it, while another goroutine creating a
// query from the same filter writes both under the mutex. Sharing one filter between
// goroutines is the documented pattern (examples/parallel_queries). Run with the race detector.
//
// Found by the lock-set obligations (*FilterN).Query#guard(generation) / #guard(rareComp).

import (
	"sync"
	"testing"
)

type verifReplayRaceA struct{ V int }
type verifReplayRaceB struct{ V int }

func TestVerifReplayC13FilterQueryRace(t *testing.T) {
	w := NewWorld()
	ma := NewMap1[verifReplayRaceA](w)
	for i := 0; i < 10; i++ {
		ma.NewEntity(&verifReplayRaceA{i})
	}
	filter := NewFilter1[verifReplayRaceA](w)
	// first use of the filter after the set of archetypes changed: both goroutines refresh the hint
	mb := NewMap2[verifReplayRaceA, verifReplayRaceB](w)
	mb.NewEntity(&verifReplayRaceA{}, &verifReplayRaceB{})
	var wg sync.WaitGroup
	for g := 0; g < 8; g++ {
		wg.Add(1)
		go func() {
			defer wg.Done()
			q := filter.Query()
			for q.Next() {
				_ = q.Get()
			}
		}()
	}
	wg.Wait()
}
