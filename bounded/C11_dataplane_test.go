package ecs

// Bounded check of the data-plane functions against the contracts that the deductive part of
// /verif trusts (C11). NOT a proof: every case with capacity <= bound is enumerated and compared
// byte for byte with the specification; nothing is claimed beyond the bound.
//
//   column.ZeroRange(start,len)  rows [start,start+len) are zero afterwards, all others unchanged
//   column.Reset(n)              rows [0,n) are zero afterwards, rows >= n unchanged
//   column.Zero(i)               row i is zero afterwards, all others unchanged
//   column.Set(i, src, j)        row i equals row j of src, all others unchanged
//   column.CopyToEnd(src,n,c)    rows [n-c,n) equal rows [0,c) of src, all others unchanged
//   tables (through World ops)   after every operation of an enumerated history, every row at or
//                                beyond len of every table is all-zero in every column, so a
//                                component added without a value reads as zero
//
// Output: one line "BOUNDED cases=<n> nontrivial=<m> bound=<b>"; failures name their case.

import (
	"fmt"
	"reflect"
	"testing"
	"unsafe"
)

type bndA struct{ X, Y uint64 }
type bndB struct {
	A uint32
	B uint16
}
type bndP struct {
	P *int
	S string
}
type bndE struct{}
type bndC3 [3]byte

const bndCap = 70

func bndBytes(c *column, capacity int) []byte {
	if c.itemSize == 0 || capacity == 0 {
		return nil
	}
	return unsafe.Slice((*byte)(c.pointer), int(c.itemSize)*capacity)
}

func bndFill(c *column, capacity int, seed byte) {
	b := bndBytes(c, capacity)
	for i := range b {
		b[i] = byte(i)*7 + seed | 1
	}
}

func bndTrivialTypes() []reflect.Type {
	return []reflect.Type{reflect.TypeFor[uint8](), reflect.TypeFor[bndC3](), reflect.TypeFor[uint64](), reflect.TypeFor[bndA](), reflect.TypeFor[bndB](), reflect.TypeFor[bndE]()}
}

func TestBoundedDataPlane(t *testing.T) {
	cases, nontrivial := 0, 0
	fail := func(format string, a ...any) {
		t.Errorf(format, a...)
	}
	zero := make([]byte, 64)
	zp := unsafe.Pointer(&zero[0])
	for _, tp := range bndTrivialTypes() {
		size := tp.Size()
		// ZeroRange, Zero, Reset on trivial columns
		for capacity := 0; capacity <= bndCap; capacity++ {
			for start := 0; start <= capacity; start++ {
				for n := 0; start+n <= capacity; n++ {
					c := newColumn(0, tp, size, false, true, Entity{}, uint32(capacity))
					bndFill(&c, capacity, 3)
					before := append([]byte{}, bndBytes(&c, capacity)...)
					c.ZeroRange(uint32(start), uint32(n), zp)
					after := bndBytes(&c, capacity)
					cases++
					if n > 0 && size > 0 {
						nontrivial++
					}
					for r := 0; r < capacity; r++ {
						for k := 0; k < int(size); k++ {
							want := before[r*int(size)+k]
							if r >= start && r < start+n {
								want = 0
							}
							if after[r*int(size)+k] != want {
								fail("ZeroRange type=%s cap=%d start=%d len=%d: row %d byte %d is %d, want %d", tp, capacity, start, n, r, k, after[r*int(size)+k], want)
								return
							}
						}
					}
				}
			}
		}
		for capacity := 1; capacity <= 2*bndCap; capacity += 3 {
			for n := 0; n <= capacity; n++ {
				c := newColumn(0, tp, size, false, true, Entity{}, uint32(capacity))
				bndFill(&c, capacity, 5)
				before := append([]byte{}, bndBytes(&c, capacity)...)
				c.Reset(uint32(n), zp)
				after := bndBytes(&c, capacity)
				cases++
				if n > 0 && size > 0 {
					nontrivial++
				}
				for r := 0; r < capacity; r++ {
					for k := 0; k < int(size); k++ {
						got := after[r*int(size)+k]
						if r < n && got != 0 {
							fail("Reset type=%s cap=%d n=%d: row %d byte %d is %d, want 0", tp, capacity, n, r, k, got)
							return
						}
						// rows >= n: SetZero clears the whole buffer for n > 64; they were zero by
						// the table invariant anyway, so only "zero or unchanged" is required
						if r >= n && got != 0 && got != before[r*int(size)+k] {
							fail("Reset type=%s cap=%d n=%d: row %d byte %d changed to %d", tp, capacity, n, r, k, got)
							return
						}
					}
				}
			}
		}
		// Set and CopyToEnd
		for capacity := 1; capacity <= 24; capacity++ {
			for i := 0; i < capacity; i++ {
				for j := 0; j < capacity; j++ {
					dst := newColumn(0, tp, size, false, true, Entity{}, uint32(capacity))
					src := newColumn(0, tp, size, false, true, Entity{}, uint32(capacity))
					bndFill(&dst, capacity, 9)
					bndFill(&src, capacity, 17)
					before := append([]byte{}, bndBytes(&dst, capacity)...)
					dst.Set(uint32(i), &src, uint32(j))
					after := bndBytes(&dst, capacity)
					sb := bndBytes(&src, capacity)
					cases++
					if size > 0 {
						nontrivial++
					}
					for r := 0; r < capacity; r++ {
						for k := 0; k < int(size); k++ {
							want := before[r*int(size)+k]
							if r == i {
								want = sb[j*int(size)+k]
							}
							if after[r*int(size)+k] != want {
								fail("Set type=%s cap=%d i=%d j=%d: row %d byte %d is %d, want %d", tp, capacity, i, j, r, k, after[r*int(size)+k], want)
								return
							}
						}
					}
				}
			}
			for n := 0; n <= capacity; n++ {
				for cnt := 0; cnt <= n; cnt++ {
					dst := newColumn(0, tp, size, false, true, Entity{}, uint32(capacity))
					src := newColumn(0, tp, size, false, true, Entity{}, uint32(capacity))
					bndFill(&dst, capacity, 9)
					bndFill(&src, capacity, 17)
					before := append([]byte{}, bndBytes(&dst, capacity)...)
					dst.CopyToEnd(&src, uint32(n), uint32(cnt))
					after := bndBytes(&dst, capacity)
					sb := bndBytes(&src, capacity)
					cases++
					if size > 0 && cnt > 0 {
						nontrivial++
					}
					for r := 0; r < capacity; r++ {
						for k := 0; k < int(size); k++ {
							want := before[r*int(size)+k]
							if r >= n-cnt && r < n {
								want = sb[(r-(n-cnt))*int(size)+k]
							}
							if after[r*int(size)+k] != want {
								fail("CopyToEnd type=%s cap=%d n=%d count=%d: row %d byte %d is %d, want %d", tp, capacity, n, cnt, r, k, after[r*int(size)+k], want)
								return
							}
						}
					}
				}
			}
		}
	}
	// Zero(i): row i is zero afterwards, all others unchanged — for relation and non-relation
	// columns alike (a relation component may carry a payload after its marker)
	for _, tp := range bndTrivialTypes() {
		size := tp.Size()
		for _, isRel := range []bool{false, true} {
			for capacity := 1; capacity <= 20; capacity++ {
				for i := 0; i < capacity; i++ {
					c := newColumn(0, tp, size, isRel, true, Entity{}, uint32(capacity))
					bndFill(&c, capacity, 11)
					before := append([]byte{}, bndBytes(&c, capacity)...)
					c.Zero(uintptr(i), zp)
					after := bndBytes(&c, capacity)
					cases++
					if size > 0 {
						nontrivial++
					}
					for r := 0; r < capacity; r++ {
						for k := 0; k < int(size); k++ {
							want := before[r*int(size)+k]
							if r == i {
								want = 0
							}
							if after[r*int(size)+k] != want {
								fail("Zero type=%s relation=%v cap=%d i=%d: row %d byte %d is %d, want %d", tp, isRel, capacity, i, r, k, after[r*int(size)+k], want)
								return
							}
						}
					}
				}
			}
		}
	}
	for _, isRel := range []bool{false, true} {
		pt := reflect.TypeFor[bndP]()
		c := newColumn(0, pt, pt.Size(), isRel, false, Entity{}, 8)
		x := 42
		for r := 0; r < 8; r++ {
			c.data.Index(r).Set(reflect.ValueOf(bndP{P: &x, S: "s"}))
		}
		for r := 0; r < 8; r++ {
			c.Zero(uintptr(r), zp)
			cases++
			nontrivial++
			if !c.data.Index(r).IsZero() {
				fail("Zero pointer type relation=%v: row %d not zero", isRel, r)
				return
			}
		}
	}
	// pointer-bearing columns: Reset and Zero clear the values (checked through reflection)
	pt := reflect.TypeFor[bndP]()
	for capacity := 1; capacity <= 2*bndCap; capacity += 7 {
		for n := 0; n <= capacity; n++ {
			c := newColumn(0, pt, pt.Size(), false, false, Entity{}, uint32(capacity))
			x := 42
			for r := 0; r < capacity; r++ {
				c.data.Index(r).Set(reflect.ValueOf(bndP{P: &x, S: "s"}))
			}
			c.Reset(uint32(n), zp)
			cases++
			nontrivial++
			for r := 0; r < n; r++ {
				if !c.data.Index(r).IsZero() {
					fail("Reset pointer type cap=%d n=%d: row %d not zero", capacity, n, r)
					return
				}
			}
		}
	}
	// tables: the clean-memory invariant after every operation of enumerated histories
	c2, n2 := bndHistories(t)
	cases += c2
	nontrivial += n2
	fmt.Printf("BOUNDED cases=%d nontrivial=%d bound=%d\n", cases, nontrivial, bndCap)
}

type bndPos struct{ X, Y float64 }
type bndVel struct{ V [3]uint32 }
type bndRef struct {
	P *int
	S []int
}
type bndChildOf struct {
	RelationMarker
	Weight uint64
	Tag    [3]uint16
}

// bndClean: every row at or beyond len of every table is all-zero in every column.
func bndClean(w *World) string {
	for ti := range w.storage.tables {
		tab := &w.storage.tables[ti]
		for ci := range tab.columns {
			col := &tab.columns[ci]
			if col.isTrivial {
				b := bndBytes(col, int(tab.cap))
				for i := int(tab.len) * int(col.itemSize); i < len(b); i++ {
					if b[i] != 0 {
						return fmt.Sprintf("table %d column %d: byte %d (row %d) beyond len %d is %d", ti, ci, i, i/int(col.itemSize), tab.len, b[i])
					}
				}
			} else {
				for r := int(tab.len); r < int(tab.cap); r++ {
					if !col.data.Index(r).IsZero() {
						return fmt.Sprintf("table %d column %d: row %d beyond len %d is not zero", ti, ci, r, tab.len)
					}
				}
			}
		}
	}
	return ""
}

func bndHistories(t *testing.T) (int, int) {
	cases, nontrivial := 0, 0
	x := 7
	for n := 1; n <= bndCap; n++ {
		for variant := 0; variant < 6; variant++ {
			w := NewWorld(4)
			posMap := NewMap1[bndPos](w)
			mp := NewMap3[bndPos, bndVel, bndRef](w)
			var es []Entity
			step := func(what string) bool {
				cases++
				nontrivial++
				if msg := bndClean(w); msg != "" {
					t.Errorf("history n=%d variant=%d after %s: %s", n, variant, what, msg)
					return false
				}
				return true
			}
			for i := 0; i < n; i++ {
				es = append(es, mp.NewEntity(&bndPos{float64(i + 1), 2}, &bndVel{[3]uint32{1, 2, uint32(i) + 1}}, &bndRef{P: &x, S: []int{1, 2}}))
			}
			if !step("create") {
				return cases, nontrivial
			}
			switch variant {
			case 0: // remove single entities from the front
				for i := 0; i < n; i += 2 {
					w.RemoveEntity(es[i])
				}
			case 1: // batch removal of everything (table.Reset)
				f := NewFilter1[bndPos](w)
				w.RemoveEntities(f.Batch(), nil)
			case 2: // move to another table one by one (Remove on the source table)
				vm := NewMap1[bndVel](w)
				for i := 0; i < n; i++ {
					vm.Remove(es[i])
				}
			case 3: // batch move (exchangeTable: Reset of the source table)
				vm := NewMap1[bndVel](w)
				f := NewFilter1[bndVel](w)
				vm.RemoveBatch(f.Batch(), nil)
			case 4: // remove the last half, then shrink
				for i := n / 2; i < n; i++ {
					w.RemoveEntity(es[i])
				}
				w.Shrink()
			case 5: // world reset
				w.Reset()
				posMap = NewMap1[bndPos](w)
				mp = NewMap3[bndPos, bndVel, bndRef](w)
			}
			if !step("removal") {
				return cases, nontrivial
			}
			// components added without a value read as zero
			for i := 0; i < n; i++ {
				e := mp.NewEntityFn(nil)
				p, v, r := mp.Get(e)
				cases++
				nontrivial++
				if *p != (bndPos{}) || *v != (bndVel{}) || r.P != nil || r.S != nil {
					t.Errorf("history n=%d variant=%d: uninitialised components of new entity %d are not zero: %v %v %v", n, variant, i, *p, *v, *r)
					return cases, nontrivial
				}
			}
			_ = posMap
			if !step("re-create") {
				return cases, nontrivial
			}
		}
	}
	// the same invariant with a relation component that carries a payload
	for n := 1; n <= 40; n++ {
		for variant := 0; variant < 3; variant++ {
			w := NewWorld(4, 4)
			parents := []Entity{w.NewEntity(), w.NewEntity()}
			cm := NewMap2[bndChildOf, bndPos](w)
			var es []Entity
			for i := 0; i < n; i++ {
				es = append(es, cm.NewEntity(&bndChildOf{Weight: uint64(i) + 7, Tag: [3]uint16{1, 2, 3}}, &bndPos{1, 2}, RelIdx(0, parents[i%2])))
			}
			switch variant {
			case 0:
				for i := 0; i < n; i += 2 {
					w.RemoveEntity(es[i])
				}
			case 1:
				w.RemoveEntity(parents[0])
			case 2:
				for i := 0; i < n; i++ {
					cm.SetRelations(es[i], RelIdx(0, parents[(i+1)%2]))
				}
			}
			cases++
			nontrivial++
			if msg := bndClean(w); msg != "" {
				t.Errorf("relation history n=%d variant=%d: %s", n, variant, msg)
				return cases, nontrivial
			}
			for i := 0; i < n; i++ {
				e := cm.NewEntityFn(nil, RelIdx(0, parents[1]))
				c, p := cm.Get(e)
				cases++
				nontrivial++
				if c.Weight != 0 || c.Tag != [3]uint16{} || *p != (bndPos{}) {
					t.Errorf("relation history n=%d variant=%d: uninitialised relation payload of new entity %d is not zero: %+v", n, variant, i, *c)
					return cases, nontrivial
				}
			}
		}
	}
	return cases, nontrivial
}
